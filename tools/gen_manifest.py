#!/usr/bin/env python3
"""Regenerate MANIFEST.json from the metadata of the check modules."""
import importlib, json, os, sys
ROOT = os.path.dirname(os.path.dirname(os.path.abspath(__file__)))
sys.path.insert(0, os.path.join(ROOT, "lib"))
props = [json.loads(l) for l in open(os.path.join(ROOT, "properties.jsonl"))]
NA = {}
na_path = os.path.join(ROOT, "tools", "not_applicable.json")
if os.path.exists(na_path):
    NA = json.load(open(na_path))
checks, na = [], []
for p in props:
    pid = p["id"]
    if os.path.exists(os.path.join(ROOT, "lib", "vf", "checks", pid.lower() + ".py")) and pid not in NA:
        m = importlib.import_module("vf.checks." + pid.lower())
        c = {
            "property_id": pid,
            "quick_cmd": "./check %s quick" % pid,
            "thorough_cmd": "./check %s thorough" % pid,
            "evidence_file": "evidence/%s.json" % pid,
            "replay_cmd_template": "./check %s --replay {path}" % pid,
            "engine": getattr(m, "ENGINE", "apiprobe"),
            "level_claimed": {"category": m.LEVEL, "text": m.TEXT, "design_ref": "DESIGN.md section 4 and Appendix B (%s)" % pid},
            "level_note": m.NOTE,
            "technique": m.TECHNIQUE,
        }
        checks.append(c)
    else:
        na.append({"property_id": pid, "reason": NA.get(pid, "no check registered yet: the engine for this property is still under construction in this round (see DESIGN.md section 9); nothing is claimed for it")})
engines = json.load(open(os.path.join(ROOT, "tools", "engines.json")))
by_engine = {}
uses_forksrv = []
for c in checks:
    by_engine.setdefault(c["engine"], []).append(c["property_id"])
    if "toolrun" in open(os.path.join(ROOT, "lib", "vf", "checks", c["property_id"].lower() + ".py")).read():
        uses_forksrv.append(c["property_id"])
for e in engines:
    if e["name"] == "forksrv":
        e["serves_properties"] = uses_forksrv
    else:
        e["serves_properties"] = sorted(set(by_engine.get(e["name"], [])) | (set(e["serves_properties"]) if e["name"] in ("xmlmut", "vsched") else set()))
missing = set(by_engine) - set(e["name"] for e in engines)
assert not missing, missing
man = {
    "version": 1,
    "setup_cmd": "./setup.sh",
    "hooks": {
        "guard": "LIBABIGAIL_VERIF",
        "enable": "none needed: checks compile /repo's sources out of tree (lib/vf/build.py); the scheduler is attached by -include engines/vsched/vsched_shim.h (macro renaming of pthread calls) and private state is read with -fno-access-control in harness translation units only",
        "baseline_off_cmd": "make -C /repo -k -j8 check",
        "source_commits": [],
        "add_only": True,
    },
    "engines": engines,
    "checks": checks,
    "not_applicable": na,
    "notes": "All checks are bounded exhaustive explorations (model-checking family); see DESIGN.md. known_findings.json lists genuine defects (open / fixed).",
}
json.dump(man, open(os.path.join(ROOT, "MANIFEST.json"), "w"), indent=1)
print("checks:", len(checks), "not_applicable:", len(na))
