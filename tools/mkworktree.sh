#!/bin/sh
# Prepare a scratch git worktree of /repo with its own in-tree autotools build.
# usage: mkworktree.sh <dir>     (dir outside /repo and /verif, e.g. /tmp/wt-C32)
set -e
d="$1"
[ -n "$d" ] || { echo "usage: $0 dir"; exit 2; }
git -C /repo worktree add --detach "$d" HEAD >/dev/null 2>&1
cd /repo
# generated autotools files are git-ignored: copy them (not the objects), then configure afresh so that
# every path in the Makefiles points into the worktree
for f in configure aclocal.m4 config.h.in ltmain.sh install-sh Makefile.in build-aux autoconf-archive m4 \
         src/Makefile.in include/Makefile.in tools/Makefile.in tests/Makefile.in doc/Makefile.in doc/manuals/Makefile.in \
         bash-completion/Makefile.in tests/data/Makefile.in; do
  [ -e "$f" ] && { mkdir -p "$d/$(dirname $f)"; cp -a "$f" "$d/$f"; }
done
cd "$d"
./configure >/dev/null 2>&1
make -j6 >/dev/null 2>&1 || { echo "build failed in $d"; exit 1; }
echo "ready: $d"
