#!/bin/bash
# Run checks against a seeded change WITHOUT touching /repo: a scratch copy of the sources gets the patch,
# VERIF_REPO points the build at it, evidence and replays go to scratch directories.
# usage: try_seed.sh <seed_dir> <ID> [tier]        (prints the check's last lines; exit status of the check)
sd=$(cd "$1" && pwd); id=$2; tier=${3:-quick}
scr=$(mktemp -d /tmp/tryseed.XXXXXX)
trap 'rm -rf "$scr"' EXIT
mkdir -p "$scr/repo"
( cd /repo && git ls-files -z src include tools config.h.in | xargs -0 cp --parents -t "$scr/repo" ) || exit 2
cp /repo/config.h "$scr/repo/" 2>/dev/null
cp /repo/include/abg-version.h "$scr/repo/include/" 2>/dev/null
( cd "$scr/repo" && git init -q . && git apply "$sd/patch.diff" ) || { echo "patch does not apply"; exit 2; }
cd /verif
VERIF_REPO="$scr/repo" VERIF_EVIDENCE_DIR="$scr/ev" VERIF_REPLAY_DIR="$scr/rp" ./check "$id" "$tier" > "$scr/log" 2>&1
rc=$?
[ -n "$KEEPLOG" ] && cp "$scr/log" "$KEEPLOG"
grep -E "signature:|^$id |HARNESS" "$scr/log" | sort | uniq -c | sort -rn | head -12 | cut -c1-220
echo "exit=$rc"
exit $rc
