#!/bin/sh
# Run the quick (or thorough) tier of every registered check, sequentially; print one line per check.
cd "$(dirname "$0")/.."
tier=${1:-quick}; shift
ids=${*:-$(python3 -c "import json;print(' '.join(c['property_id'] for c in json.load(open('MANIFEST.json'))['checks']))")}
for id in $ids; do
  s=$(date +%s)
  ./check $id $tier > /tmp/run_all.$id.log 2>&1; rc=$?
  echo "$id rc=$rc $(( $(date +%s) - s ))s :: $(tail -1 /tmp/run_all.$id.log | cut -c1-160)"
done
