#!/usr/bin/env python3
"""Regenerates the generated appendices of DESIGN.md (everything after the marker line) from the check
modules, known_findings.json, seeded/*/meta.json and the evidence files."""
import glob
import importlib
import json
import os
import subprocess
import sys

ROOT = os.path.dirname(os.path.dirname(os.path.abspath(__file__)))
sys.path.insert(0, os.path.join(ROOT, "lib"))
MARK = "<!-- GENERATED APPENDICES BELOW (tools/gen_design_appendix.py) -->"


def main():
    props = {}
    for l in open(os.path.join(ROOT, "properties.jsonl")):
        p = json.loads(l)
        props[p["id"]] = p
    out = [MARK, "", "## Appendix B. The checks as implemented (generated from lib/vf/checks/*.py)", "",
           "For each property: verification level, engine, the deciding technique, the enumeration rule with its bounds and oracle, what the tiers complete, and the stated limits. "
           "This text is the `TECHNIQUE` / `RULE` / `TEXT` / `NOTE` constants of the check module, i.e. exactly what the evidence files carry.", ""]
    for pid in sorted(props):
        try:
            m = importlib.import_module("vf.checks." + pid.lower())
        except ImportError:
            continue
        out.append("### %s %s" % (pid, props[pid]["title"]))
        out.append("")
        out.append("* level `%s`, engine `%s`" % (m.LEVEL, m.ENGINE))
        out.append("* technique: %s" % m.TECHNIQUE)
        out.append("* space, bounds, oracle: %s" % m.RULE)
        out.append("* tiers: %s" % m.TEXT)
        if getattr(m, "NOTE", ""):
            out.append("* limits: %s" % m.NOTE)
        if getattr(m, "ASSUMPTIONS", None):
            out.append("* assumptions: %s" % "; ".join(m.ASSUMPTIONS))
        ev = os.path.join(ROOT, "evidence", pid + ".json")
        if os.path.exists(ev):
            e = json.load(open(ev))
            c = e.get("coverage", {})
            out.append("* last committed evidence (%s tier): %s evaluations, %s non-trivial, %s distinct outcomes, bounds completed %s, exhaustive=%s, %.0f s" % (
                e.get("tier"), c.get("evaluations"), c.get("distinct_nontrivial"), c.get("distinct_outcomes"), ", ".join(c.get("bounds_completed", [])) or "-", c.get("exhaustive"), e.get("wall_s", 0)))
        ev = os.path.join(ROOT, "evidence_thorough", pid + ".json")
        if os.path.exists(ev):
            e = json.load(open(ev))
            c = e.get("coverage", {})
            out.append("* last thorough-tier run (evidence_thorough/, `tools/run_all.sh thorough`): %s evaluations, %s non-trivial, %s distinct outcomes, bounds completed %s of %s attempted, exhaustive=%s%s, %d violations, %.0f s" % (
                c.get("evaluations"), c.get("distinct_nontrivial"), c.get("distinct_outcomes"), ", ".join(c.get("bounds_completed", [])) or "-", len(c.get("bounds_attempted", [])), c.get("exhaustive"),
                " (deadline reached)" if c.get("deadline_hit") else "", e.get("violations", 0), e.get("wall_s", 0)))
        out.append("")
    kf = json.load(open(os.path.join(ROOT, "known_findings.json")))["findings"]
    out += ["## Appendix C. Findings on the unchanged tree (generated from known_findings.json)", "",
            "`fixed` = genuine defect repaired by the named `fix:` commit in /repo (the entry suppresses nothing); `open` = genuine defect recorded by signature (fnmatch pattern over `<ID> <tool|api> <outcome> <site> <input class>`), "
            "reported as `KNOWN-FINDING` and never extended at run time.", ""]
    for pid in sorted(props):
        es = [f for f in kf if f["property"] == pid]
        if not es:
            continue
        out.append("### %s" % pid)
        out.append("")
        for f in es:
            if f["status"] == "fixed":
                out.append("* fixed: property=%s %s %s  \n  signature `%s`" % (pid, f.get("commit", "?"), f["what"], f["signature"]))
            else:
                out.append("* open: `%s`  \n  %s" % (f["signature"], f["what"]))
        out.append("")
    out += ["## Appendix D. Seeded property-breaking changes and the checks that catch them (generated from seeded/*/meta.json)", "",
            "Each change was produced by a fresh sub-agent that saw only the property text and a scratch worktree, builds, keeps the repository's test suite at 20 PASS / 6 baseline FAIL "
            "(`confirm.log` in each directory), and is applied with `git -C /repo apply seeded/<dir>/patch.diff` and undone with `git -C /repo checkout -- .`.", "",
            "| directory | property | change | detected by |", "|---|---|---|---|"]
    for d in sorted(glob.glob(os.path.join(ROOT, "seeded", "*"))):
        mp = os.path.join(d, "meta.json")
        if not os.path.exists(mp):
            continue
        m = json.load(open(mp))
        conf = ""
        cl = os.path.join(d, "confirm.log")
        if os.path.exists(cl):
            conf = " (confirmed)" if "CONFIRMED=1" in open(cl).read() else " (NOT confirmed)"
        out.append("| %s | %s | %s%s | %s |" % (os.path.basename(d), m.get("property"), m.get("title", "").replace("|", "/"), conf, m.get("detected_by", "").replace("|", "/")))
    out.append("")
    path = os.path.join(ROOT, "DESIGN.md")
    s = open(path).read()
    if MARK in s:
        s = s[:s.index(MARK)]
    s = s.rstrip("\n") + "\n\n\n" + "\n".join(out) + "\n"
    open(path, "w").write(s)
    print("DESIGN.md appendices regenerated: %d lines" % len(out))


main()
