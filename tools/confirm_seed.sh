#!/bin/bash
# Confirm a seeded change in a scratch worktree: the demo passes without it, fails with it,
# the tree still builds and the repository's test suite still passes (the 6 always-failing tests aside).
# usage: confirm_seed.sh <worktree> <seed_dir>
wt="$1"; sd="$2"
log="$sd/confirm.log"; : > "$log"
export WT="$wt"
cd "$wt" || exit 2
{
git checkout -f --detach main && git clean -fdq -e '*.o' -e '*.lo' -e '.libs' -e '.deps' >/dev/null 2>&1
make -j6 >/dev/null 2>&1 || { echo "BUILD-BASE failed"; exit 1; }
echo "== demo on unchanged tree"; bash "$sd/run.sh" >/dev/null 2>&1; base=$?; echo "demo exit (unchanged) = $base"
git apply "$sd/patch.diff" || { echo "PATCH does not apply"; exit 1; }
make -j6 >/dev/null 2>&1 || { echo "BUILD-PATCHED failed"; exit 1; }
echo "== demo on patched tree"; bash "$sd/run.sh" >/dev/null 2>&1; pat=$?; echo "demo exit (patched) = $pat"
make -k -j8 check > "$sd/check-patched.log" 2>&1
fails=$(grep '^FAIL:' "$sd/check-patched.log" | sort | tr '\n' ' ')
echo "test suite with patch: $(grep -E '^# (PASS|FAIL):' "$sd/check-patched.log" | tr '\n' ' ') failing: $fails"
git checkout -f -- . 
exp="FAIL: runtestaltdwarf FAIL: runtestannotate FAIL: runtestdifffilter FAIL: runtestdiffsuppr FAIL: runtestreaddwarf FAIL: runtesttypesstability "
ok=1; [ "$base" = 0 ] || ok=0; [ "$pat" != 0 ] || ok=0; [ "$fails" = "$exp" ] || ok=0
echo "CONFIRMED=$ok"
} >> "$log" 2>&1
rm -f "$sd/check-patched.log"
tail -5 "$log"
