// C21: equality, hashing and diffing agree on the IR.
//   apiprobe_eqhash FILE1 FILE2   (both loaded into ONE environment)
// For every pair of same-named functions / variables across the two corpora, every pair of
// same-named types across the corpora, every pair of differently named array / pointer / qualified / enum / typedef types
// across the corpora, and every pair of types inside corpus 1:
//   a == b  <=>  b == a ;   a == b  =>  hash(a) == hash(b) ;   diff(a,b).has_changes()  <=>  !(a == b)
#include "probe_util.h"
#include "abg-dwarf-reader.h"
#include "abg-corpus.h"
#include "abg-comparison.h"
#include "abg-ir.h"
#include <set>

using namespace abigail;
using namespace abigail::ir;
using std::string;
using std::vector;

static vf::Report rep;
static string J(const string& s) { return "\"" + vf::jesc(s) + "\""; }
static string FILES;

static corpus_sptr load(const char* path, environment_sptr env)
{
  vector<char**> di;
  dwarf_reader::read_context_sptr ctxt = dwarf_reader::create_read_context(path, di, env.get(), false, true);
  elf_reader::status st = elf_reader::STATUS_UNKNOWN;
  return dwarf_reader::read_corpus_from_elf(*ctxt, st);
}

static void collect(const istring_type_base_wptrs_map_type& m, vector<type_base_sptr>& out, std::set<type_base*>& seen)
{
  for (istring_type_base_wptrs_map_type::const_iterator i = m.begin(); i != m.end(); ++i)
    for (vector<type_base_wptr>::const_iterator j = i->second.begin(); j != i->second.end(); ++j) {
      type_base_sptr t(*j);
      if (t && seen.insert(t.get()).second) out.push_back(t);
    }
}
static vector<type_base_sptr> all_types(const corpus_sptr& c)
{
  vector<type_base_sptr> types; std::set<type_base*> seen;
  for (translation_units::const_iterator tu = c->get_translation_units().begin(); tu != c->get_translation_units().end(); ++tu) {
    const type_maps& m = (*tu)->get_types();
    collect(m.basic_types(), types, seen); collect(m.class_types(), types, seen); collect(m.union_types(), types, seen);
    collect(m.enum_types(), types, seen); collect(m.typedef_types(), types, seen); collect(m.qualified_types(), types, seen);
    collect(m.pointer_types(), types, seen); collect(m.array_types(), types, seen); collect(m.function_types(), types, seen);
  }
  return types;
}

template <class SPtr>
static void laws(const SPtr& a, const SPtr& b, const string& kind, const string& na, const string& nb, bool do_diff, comparison::diff_context_sptr ctxt)
{
  rep.evaluations++;
  bool ab = false, ba = false, changes = false; size_t ha = 0, hb = 0; bool diff_ok = false;
  if (VF_GUARD) {
    ab = (*a == *b); ba = (*b == *a);
    ha = hash_type_or_decl(a.get()); hb = hash_type_or_decl(b.get());
    if (do_diff) { comparison::diff_sptr d = comparison::compute_diff(a, b, ctxt); if (d) { changes = d->has_changes(); diff_ok = true; } }
    VF_UNGUARD;
  } else {
    VF_UNGUARD;
    rep.outcomes["crash"]++;
    rep.fail("C21 api crash laws " + kind, "comparing " + kind + " '" + na + "' and '" + nb + "' crashed (signal " + std::to_string(vf::last_signal) + ")", "{\"files\":" + FILES + "}");
    return;
  }
  if (!ab) rep.nontrivial++;
  bool bad = false;
  if (ab != ba) { bad = true; rep.fail("C21 api mismatch:symmetry " + kind, kind + " '" + na + "' == '" + nb + "' is " + (ab ? "true" : "false") + " but the swapped comparison is " + (ba ? "true" : "false"), "{\"files\":" + FILES + "}"); }
  if (ab && ha != hb) { bad = true; rep.fail("C21 api mismatch:equal-but-different-hash " + kind, kind + " '" + na + "' and '" + nb + "' are equal but hash differently", "{\"files\":" + FILES + "}"); }
  if (diff_ok && changes == ab) { bad = true; rep.fail(string("C21 api mismatch:") + (ab ? "equal-but-diff-has-changes " : "different-but-diff-has-no-change ") + kind, kind + " '" + na + "' vs '" + nb + "': equality says " + (ab ? "equal" : "different") + ", compute_diff()->has_changes() is " + (changes ? "true" : "false"), "{\"files\":" + FILES + "}"); }
  rep.outcomes[bad ? "bad" : (ab ? "equal" : "different")]++;
}

int main(int argc, char** argv)
{
  if (argc < 3) return 2;
  vf::install_guards();
  FILES = "[" + J(argv[1]) + "," + J(argv[2]) + "]";
  environment_sptr env(new environment);
  corpus_sptr c1 = load(argv[1], env), c2 = load(argv[2], env);
  if (!c1 || !c2) { printf("{\"evaluations\":0,\"nontrivial_count\":0,\"outcomes\":{\"not-loaded\":1},\"failures\":[],\"sig_counts\":{}}\n"); return 0; }
  comparison::diff_context_sptr ctxt(new comparison::diff_context);
  for (corpus::functions::const_iterator i = c1->get_functions().begin(); i != c1->get_functions().end(); ++i)
    for (corpus::functions::const_iterator j = c2->get_functions().begin(); j != c2->get_functions().end(); ++j)
      if ((*i)->get_name() == (*j)->get_name()) {
	function_decl_sptr a(const_cast<function_decl*>(*i), [](function_decl*){}), b(const_cast<function_decl*>(*j), [](function_decl*){});
	laws(a, b, "function", (*i)->get_pretty_representation(), (*j)->get_pretty_representation(), true, ctxt);
      }
  for (corpus::variables::const_iterator i = c1->get_variables().begin(); i != c1->get_variables().end(); ++i)
    for (corpus::variables::const_iterator j = c2->get_variables().begin(); j != c2->get_variables().end(); ++j)
      if ((*i)->get_name() == (*j)->get_name()) {
	var_decl_sptr a(const_cast<var_decl*>(*i), [](var_decl*){}), b(const_cast<var_decl*>(*j), [](var_decl*){});
	laws(a, b, "variable", (*i)->get_pretty_representation(), (*j)->get_pretty_representation(), true, ctxt);
      }
  vector<type_base_sptr> t1 = all_types(c1), t2 = all_types(c2);
  for (size_t i = 0; i < t1.size(); ++i) {
    for (size_t j = i; j < t1.size(); ++j)
      laws(t1[i], t1[j], "type", get_pretty_representation(t1[i], true), get_pretty_representation(t1[j], true), false, ctxt);
    for (size_t j = 0; j < t2.size(); ++j)
      if (get_pretty_representation(t1[i], true) == get_pretty_representation(t2[j], true))
	laws(t1[i], t2[j], "type", get_pretty_representation(t1[i], true), get_pretty_representation(t2[j], true), true, ctxt);
      else if ((is_array_type(t1[i]) && is_array_type(t2[j]))
	       || (is_pointer_type(t1[i]) && is_pointer_type(t2[j]))
	       || (is_qualified_type(t1[i]) && is_qualified_type(t2[j]))
	       || (is_enum_type(t1[i]) && is_enum_type(t2[j]))
	       || (is_typedef(t1[i]) && is_typedef(t2[j])))
	// differently named types of one kind: the diff node of that kind must agree with equality as well
	laws(t1[i], t2[j], "type-pair-of-one-kind", get_pretty_representation(t1[i], true), get_pretty_representation(t2[j], true), true, ctxt);
  }
  rep.print();
  return 0;
}
