// C41: name and path helpers of abigail::tools_utils against reference definitions.
//   apiprobe_c41 dne   N SHARD NSHARDS    all ordered pairs of strings of <= N tokens
//   apiprobe_c41 split N SHARD NSHARDS    all strings of <= N tokens x delimiter sets
//   apiprobe_c41 fix   N SHARD NSHARDS    all ordered pairs of strings of <= N chars (prefix/suffix helpers)
//   apiprobe_c41 --one MODE S1 S2
#include "probe_util.h"
#include "abg-tools-utils.h"
#include <unistd.h>
#include <sys/time.h>
#include <cctype>

using std::string;
using std::vector;
using namespace abigail::tools_utils;

static vf::Report rep;

static string J(const string& s) { return "\"" + vf::jesc(s) + "\""; }
static string elem(const string& mode, const string& a, const string& b)
{ return "{\"one\":[" + J(mode) + "," + J(a) + "," + J(b) + "]}"; }

static void arm(int ms) { struct itimerval it; memset(&it, 0, sizeof it); it.it_value.tv_sec = ms / 1000; it.it_value.tv_usec = (ms % 1000) * 1000; setitimer(ITIMER_REAL, &it, 0); }
static void on_alarm(int) { if (vf::guarded) { vf::last_signal = SIGALRM; siglongjmp(vf::jb, 1); } }

static vector<string> all_strings(const vector<string>& toks, int n)
{
  vector<string> cur(1, ""), all(1, "");
  for (int len = 1; len <= n; ++len) {
    vector<string> nxt;
    for (size_t i = 0; i < cur.size(); ++i)
      for (size_t t = 0; t < toks.size(); ++t) nxt.push_back(cur[i] + toks[t]);
    all.insert(all.end(), nxt.begin(), nxt.end());
    cur.swap(nxt);
  }
  return all;
}

static bool has_anon(const string& s) { return s.find("__anonymous_") != string::npos; }

// ---------------------------------------------------------------- decl_names_equal
static void check_dne(const string& l, const string& r)
{
  rep.evaluations++;
  bool lr = false, rl = false;
  string e = elem("dne", l, r);
  if (VF_GUARD) { lr = decl_names_equal(l, r); rl = decl_names_equal(r, l); VF_UNGUARD; }
  else { VF_UNGUARD; rep.fail("C41 api crash decl_names_equal", "crashed on " + e, e); rep.outcomes["crash"]++; return; }
  bool anon = has_anon(l) || has_anon(r);
  bool nontriv = (l != r) && (anon || l.find("::") != string::npos || r.find("::") != string::npos);
  if (nontriv) rep.nontrivial++;
  bool bad = false;
  if (lr != rl) {
    bad = true;
    rep.fail("C41 api mismatch:symmetry decl_names_equal", "decl_names_equal(l,r) != decl_names_equal(r,l) for " + e, e);
  }
  if (!anon && lr != (l == r)) {
    bad = true;
    // classify the input class: only a trailing/leading separator differs, or something else
    string cls = "other";
    if (l + "::" == r || r + "::" == l) cls = "trailing-separator";
    rep.fail("C41 api mismatch:string-equality decl_names_equal " + cls,
	     string("decl_names_equal says ") + (lr ? "equal" : "different") + " but the strings (no anonymous parts) are " + (l == r ? "equal" : "different") + ": " + e, e);
  }
  if (l == r && !lr) {
    bad = true;
    rep.fail("C41 api mismatch:reflexivity decl_names_equal", "a name is not equal to itself: " + e, e);
  }
  rep.outcomes[bad ? "bad" : (anon ? (lr ? "anon-equal" : "anon-different") : (lr ? "plain-equal" : "plain-different"))]++;
  if (rep.sample.empty() && anon && lr && l != r) rep.sample = e;
}

// ---------------------------------------------------------------- split_string
static vector<string> ref_split(const string& in, const string& delims, bool strip_trailing)
{
  vector<string> out;
  string cur;
  for (size_t i = 0; i <= in.size(); ++i) {
    if (i == in.size() || delims.find(in[i]) != string::npos) {
      size_t b = 0;
      while (b < cur.size() && isspace((unsigned char)cur[b])) ++b;
      string f = cur.substr(b);
      if (strip_trailing)
	while (!f.empty() && isspace((unsigned char)f[f.size() - 1])) f.erase(f.size() - 1);
      if (!f.empty()) out.push_back(f);
      cur.clear();
    } else cur += in[i];
  }
  return out;
}

static string showv(const vector<string>& v)
{ string s = "["; for (size_t i = 0; i < v.size(); ++i) s += (i ? "," : "") + J(v[i]); return s + "]"; }

static void check_split(const string& in, const string& delims)
{
  rep.evaluations++;
  string e = elem("split", in, delims);
  vector<string> got;
  if (VF_GUARD) { arm(2000); split_string(in, delims, got); arm(0); VF_UNGUARD; }
  else { VF_UNGUARD; arm(0); rep.fail(string("C41 api ") + (vf::last_signal == SIGALRM ? "hang" : "crash") + " split_string", "on " + e, e); rep.outcomes["crash"]++; return; }
  // the statement says "non-empty trimmed fields"; the implementation documents
  // leading-space trimming.  Accept both readings of "trimmed".
  vector<string> r1 = ref_split(in, delims, false), r2 = ref_split(in, delims, true);
  if (r1.size() > 1) rep.nontrivial++;
  if (got != r1 && got != r2) {
    rep.fail("C41 api mismatch:fields split_string", "split_string returned " + showv(got) + ", reference " + showv(r1) + " for " + e, e);
    rep.outcomes["bad"]++;
  } else rep.outcomes["fields-" + std::to_string(std::min<size_t>(got.size(), 5))]++;
  if (rep.sample.empty() && r1.size() == 3) rep.sample = e;
}

// ---------------------------------------------------------------- prefix / suffix helpers
static void check_fix(const string& s, const string& p)
{
  rep.evaluations++;
  string e = elem("fix", s, p);
  bool ref_b = s.size() >= p.size() && s.compare(0, p.size(), p) == 0;
  bool ref_e = s.size() >= p.size() && s.compare(s.size() - p.size(), p.size(), p) == 0;
  if ((ref_b || ref_e) && !p.empty() && p != s) rep.nontrivial++;
  bool bad = false;
  bool b = false, en = false, su = false; string suffix = "<unset>", tl, tw;
  if (VF_GUARD) {
    arm(2000);
    b = string_begins_with(s, p);
    en = string_ends_with(s, p);
    su = string_suffix(s, p, suffix);
    tw = trim_white_space(s);
    arm(0); VF_UNGUARD;
  } else { VF_UNGUARD; arm(0); rep.fail("C41 api crash prefix-suffix-helpers", "on " + e, e); rep.outcomes["crash"]++; return; }
  if (b != ref_b) {
    bad = true;
    string cls = (s.empty() && p.empty()) ? "empty-empty" : (p.empty() ? "empty-prefix" : (s.empty() ? "empty-string" : "other"));
    rep.fail("C41 api mismatch:definition string_begins_with " + cls, string("string_begins_with returned ") + (b ? "true" : "false") + " for " + e, e);
  }
  if (en != ref_e) {
    bad = true;
    rep.fail("C41 api mismatch:definition string_ends_with", string("string_ends_with returned ") + (en ? "true" : "false") + " for " + e, e);
  }
  // string_suffix: true iff s starts with p and a suffix remains; whether an
  // *empty* remainder counts as a suffix is left open by its documentation,
  // so both answers are accepted when s == p.
  {
    bool must_true = ref_b && s.size() > p.size();
    bool may_true = ref_b;
    if ((must_true && !su) || (!may_true && su) || (su && suffix != s.substr(p.size()))) {
      bad = true;
      rep.fail("C41 api mismatch:definition string_suffix", string("string_suffix returned ") + (su ? "true" : "false") + " suffix=" + J(suffix) + " for " + e, e);
    }
  }
  // trim_white_space == strip
  {
    size_t b0 = 0, e0 = s.size();
    while (b0 < e0 && isspace((unsigned char)s[b0])) ++b0;
    while (e0 > b0 && isspace((unsigned char)s[e0 - 1])) --e0;
    if (tw != s.substr(b0, e0 - b0)) {
      bad = true;
      rep.fail("C41 api mismatch:definition trim_white_space", "trim_white_space returned " + J(tw) + " for " + e, e);
    }
  }
  // trim_leading_string(s, p): remove every leading repetition of p (p non-empty)
  if (!p.empty()) {
    string ref = s;
    while (ref.size() >= p.size() && ref.compare(0, p.size(), p) == 0) ref = ref.substr(p.size());
    if (VF_GUARD) { arm(400); tl = trim_leading_string(s, p); arm(0); VF_UNGUARD;
      if (tl != ref) { bad = true; rep.fail("C41 api mismatch:definition trim_leading_string", "trim_leading_string returned " + J(tl) + ", expected " + J(ref) + " for " + e, e); }
    } else {
      VF_UNGUARD; arm(0); bad = true;
      rep.fail(string("C41 api ") + (vf::last_signal == SIGALRM ? "hang" : "crash") + " trim_leading_string " + (ref.empty() ? "whole-string-is-repetition" : "other"),
	       "trim_leading_string does not return for " + e, e);
    }
  }
  rep.outcomes[bad ? "bad" : (ref_b ? (ref_e ? "prefix+suffix" : "prefix") : (ref_e ? "suffix" : "neither"))]++;
  if (rep.sample.empty() && ref_b && s.size() > p.size() && p.size() >= 2) rep.sample = e;
}

int main(int argc, char** argv)
{
  vf::install_guards();
  struct sigaction sa; memset(&sa, 0, sizeof sa); sa.sa_handler = on_alarm; sa.sa_flags = SA_NODEFER;
  sigaction(SIGALRM, &sa, 0);
  if (argc >= 5 && string(argv[1]) == "--one") {
    string m = argv[2];
    if (m == "dne") check_dne(argv[3], argv[4]);
    else if (m == "split") check_split(argv[3], argv[4]);
    else check_fix(argv[3], argv[4]);
    rep.print();
    return 0;
  }
  if (argc < 5) return 2;
  string mode = argv[1]; int n = atoi(argv[2]), shard = atoi(argv[3]), nsh = atoi(argv[4]);
  int nmin = argc > 5 ? atoi(argv[5]) : -1; // skip pairs fully inside a smaller bound
  if (mode == "dne") {
    const char* t[] = {"a", "b", "::", ":", " ", ",", "__anonymous_struct__", "__anonymous_union__", "__anonymous_enum__", "1"};
    vector<string> toks(t, t + 10);
    vector<string> all = all_strings(toks, n);
    size_t small = 0; if (nmin >= 0) small = all_strings(toks, nmin).size();
    for (size_t i = 0; i < all.size(); ++i) {
      if ((int)(i % nsh) != shard) continue;
      for (size_t j = 0; j < all.size(); ++j) { if (i < small && j < small) continue; check_dne(all[i], all[j]); }
    }
  } else if (mode == "split") {
    const char* t[] = {"a", "b", " ", ",", ";", "\t"};
    vector<string> toks(t, t + 6);
    vector<string> all = all_strings(toks, n);
    size_t small = 0; if (nmin >= 0) small = all_strings(toks, nmin).size();
    const char* ds[] = {",", ",;", " ", ", ", ";\t"};
    for (size_t i = small; i < all.size(); ++i) {
      if ((int)(i % nsh) != shard) continue;
      for (int d = 0; d < 5; ++d) check_split(all[i], ds[d]);
    }
  } else {
    const char* t[] = {"a", ".", "/", " "};
    vector<string> toks(t, t + 4);
    vector<string> all = all_strings(toks, n);
    size_t small = 0; if (nmin >= 0) small = all_strings(toks, nmin).size();
    for (size_t i = 0; i < all.size(); ++i) {
      if ((int)(i % nsh) != shard) continue;
      for (size_t j = 0; j < all.size(); ++j) { if (i < small && j < small) continue; check_fix(all[i], all[j]); }
    }
  }
  rep.print();
  return 0;
}
