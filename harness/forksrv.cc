// Fork server around one libabigail tool.
//
// Process creation (fork+exec) is globally serialised in this sandbox (~2 ms alone,
// ~45 ms each with 16 concurrent spawners), so running a tool once per element of
// an exhaustive space is dominated by exec.  This server links the tool's own
// translation unit (compiled with -Dmain=tool_main) and, for every request, fork()s
// a child that calls tool_main(argc, argv) and exits with its return value.  The
// child is a fresh copy of the pristine pre-main state, so each run behaves like a
// new process; there is no exec and no dynamic loading.
//
// Protocol on stdin/stdout (binary, length-prefixed fields "<len>\n<bytes>"):
//   request : "R\n" (fork) or "I\n" (in-process, see below) nargs args... cwd stdin nenv envs... timeout_ms fsize stdout_mode
//
// In-process mode ("I"): tool_main is called in the server itself with fds 0/1/2
// redirected to memfds; no fork at all (page-table operations are serialised per VM
// here, which caps fork-based runs at ~170/s whatever the parallelism).  If the tool
// crashes, calls exit() or runs into the alarm, the server dies and the client
// repeats the request in fork mode; the client also restarts the server regularly
// and cross-checks a sample of requests against fork mode.
//   response: "<rc> <signal> <timedout> <outlen> <errlen>\n" out err
#include <cerrno>
#include <csignal>
#include <cstdio>
#include <cstdlib>
#include <cstring>
#include <fcntl.h>
#include <poll.h>
#include <string>
#include <sys/resource.h>
#include <sys/time.h>
#include <sys/wait.h>
#include <unistd.h>
#include <vector>
#include <iostream>
#include <sys/mman.h>
#ifndef MFD_CLOEXEC
#define MFD_CLOEXEC 1
#endif

#include <csetjmp>
int tool_main(int argc, char* argv[]);

// In-process runs survive assertion aborts and crashes: the handler jumps back to the
// server loop, which reports the signal.  After a memory fault (or many aborts) the
// server announces that it exits, and the client starts a fresh one.
static sigjmp_buf inproc_jb;
static volatile sig_atomic_t inproc_active = 0;
static volatile sig_atomic_t inproc_sig = 0;
static void inproc_handler(int s)
{
  if (inproc_active) { inproc_sig = s; inproc_active = 0; siglongjmp(inproc_jb, 1); }
  signal(s, SIG_DFL); raise(s);
}

static FILE* in; static FILE* outp;

static bool rd_num(long& v) { char b[64]; if (!fgets(b, sizeof b, in)) return false; v = atol(b); return true; }
static bool rd_field(std::string& s)
{
  long n; if (!rd_num(n)) return false;
  s.resize(n);
  if (n && fread(&s[0], 1, n, in) != (size_t)n) return false;
  return true;
}
static double now() { struct timeval t; gettimeofday(&t, 0); return t.tv_sec + t.tv_usec * 1e-6; }

int main()
{
  // keep the protocol channel away from fds 0/1/2 so the child can own them
  int pin = dup(0), pout = dup(1);
  fcntl(pin, F_SETFD, FD_CLOEXEC); fcntl(pout, F_SETFD, FD_CLOEXEC);
  in = fdopen(pin, "rb"); outp = fdopen(pout, "wb");
  int devnull = open("/dev/null", O_RDWR);
  dup2(devnull, 0); dup2(devnull, 1);
  signal(SIGPIPE, SIG_IGN);
  for (;;) {
    char tag[8];
    if (!fgets(tag, sizeof tag, in)) break;
    if (tag[0] != 'R' && tag[0] != 'I') break;
    bool inproc = tag[0] == 'I';
    long nargs; if (!rd_num(nargs)) break;
    std::vector<std::string> args(nargs);
    for (long i = 0; i < nargs; ++i) if (!rd_field(args[i])) return 3;
    std::string cwd, sin, mode; long nenv, timeout_ms, fsize;
    if (!rd_field(cwd) || !rd_field(sin) || !rd_num(nenv)) return 3;
    std::vector<std::string> envs(nenv);
    for (long i = 0; i < nenv; ++i) if (!rd_field(envs[i])) return 3;
    if (!rd_num(timeout_ms) || !rd_num(fsize) || !rd_field(mode)) return 3;

    if (inproc) {
      int fi = memfd_create("in", 0), fo = memfd_create("out", 0), fe = memfd_create("err", 0);
      if (fi < 0 || fo < 0 || fe < 0) return 6;
      if (!sin.empty()) { if (write(fi, sin.data(), sin.size()) != (ssize_t)sin.size()) return 6; lseek(fi, 0, SEEK_SET); }
      int s0 = dup(0), s1 = dup(1), s2 = dup(2);
      dup2(fi, 0); dup2(fo, 1); dup2(fe, 2);
      std::cout.clear(); std::cerr.clear(); std::cin.clear();
      std::cout.flags(std::ios_base::dec | std::ios_base::skipws); std::cerr.flags(std::ios_base::dec | std::ios_base::skipws | std::ios_base::unitbuf);
      std::cout.fill(' '); std::cout.width(0); std::cout.precision(6);
      clearerr(stdin); clearerr(stdout); clearerr(stderr);
      std::vector<std::string> a2(args);
      std::vector<char*> av;
      for (size_t i = 0; i < a2.size(); ++i) av.push_back(&a2[i][0]);
      av.push_back(0);
      static int aborts_survived = 0;
      int rc = 0, sig = 0, leaving = 0;
      static char* altstack = 0;
      if (!altstack) {   // so that a stack overflow (unbounded recursion) can still be caught
	altstack = (char*)malloc(1 << 16);
	stack_t ss; ss.ss_sp = altstack; ss.ss_size = 1 << 16; ss.ss_flags = 0; sigaltstack(&ss, 0);
      }
      struct sigaction sa; memset(&sa, 0, sizeof sa); sa.sa_handler = inproc_handler; sa.sa_flags = SA_NODEFER | SA_ONSTACK;
      sigaction(SIGABRT, &sa, 0); sigaction(SIGSEGV, &sa, 0); sigaction(SIGBUS, &sa, 0); sigaction(SIGFPE, &sa, 0); sigaction(SIGALRM, &sa, 0);
      alarm((unsigned)(timeout_ms / 1000) + 1);
      if (sigsetjmp(inproc_jb, 1) == 0) {
	inproc_active = 1;
	rc = tool_main((int)a2.size(), &av[0]);
	inproc_active = 0;
      } else {
	sig = inproc_sig;
	if (sig != SIGABRT || ++aborts_survived >= 200) leaving = 1;
      }
      alarm(0);
      std::cout.flush(); std::cerr.flush(); fflush(stdout); fflush(stderr);
      dup2(s0, 0); dup2(s1, 1); dup2(s2, 2); close(s0); close(s1); close(s2);
      std::string out, err; char buf[65536]; ssize_t k;
      lseek(fo, 0, SEEK_SET); while ((k = read(fo, buf, sizeof buf)) > 0) out.append(buf, k);
      lseek(fe, 0, SEEK_SET); while ((k = read(fe, buf, sizeof buf)) > 0) err.append(buf, k);
      close(fi); close(fo); close(fe);
      if (sig == SIGALRM)
	fprintf(outp, "-1 0 1 %zu %zu %d\n", out.size(), err.size(), leaving);
      else
	fprintf(outp, "%d %d 0 %zu %zu %d\n", sig ? -1 : (rc & 0xff), sig, out.size(), err.size(), leaving);
      fwrite(out.data(), 1, out.size(), outp);
      fwrite(err.data(), 1, err.size(), outp);
      fflush(outp);
      if (leaving) return 0;
      continue;
    }
    int po[2], pe[2], pi[2];
    if (pipe(po) || pipe(pe) || pipe(pi)) return 4;
    fflush(outp);
    pid_t pid = fork();
    if (pid < 0) return 5;
    if (pid == 0) {
      // ---- child: becomes the tool
      signal(SIGPIPE, SIG_DFL);
      setpgid(0, 0);
      dup2(pi[0], 0);
      if (mode == "pipe") dup2(po[1], 1);
      else if (mode == "closed") close(1);
      else if (mode.compare(0, 5, "file:") == 0) {
	int fd = open(mode.c_str() + 5, O_WRONLY | O_CREAT | O_TRUNC, 0644);
	if (fd < 0) _exit(126);
	dup2(fd, 1); close(fd);
      } else if (mode.compare(0, 7, "append:") == 0) {
	int fd = open(mode.c_str() + 7, O_WRONLY | O_APPEND);
	if (fd < 0) _exit(126);
	dup2(fd, 1); close(fd);
      }
      dup2(pe[1], 2);
      for (int fd = 3; fd < 64; ++fd) close(fd);
      if (!cwd.empty() && chdir(cwd.c_str())) _exit(125);
      for (size_t i = 0; i < envs.size(); ++i) {
	size_t eq = envs[i].find('=');
	if (eq == std::string::npos) unsetenv(envs[i].c_str());
	else setenv(envs[i].substr(0, eq).c_str(), envs[i].c_str() + eq + 1, 1);
      }
      if (fsize >= 0) {
	signal(SIGXFSZ, SIG_IGN);
	struct rlimit rl; rl.rlim_cur = rl.rlim_max = fsize; setrlimit(RLIMIT_FSIZE, &rl);
      }
      std::vector<char*> av;
      for (size_t i = 0; i < args.size(); ++i) av.push_back(&args[i][0]);
      av.push_back(0);
      int rc = tool_main((int)args.size(), &av[0]);
      exit(rc);   // run atexit handlers / static destructors: flushes std::cout like a real process end
    }
    close(po[1]); close(pe[1]); close(pi[0]);
    // feed stdin (small inputs only; larger ones are written progressively in the poll loop)
    size_t in_off = 0;
    fcntl(pi[1], F_SETFL, O_NONBLOCK);
    if (sin.empty()) { close(pi[1]); pi[1] = -1; }
    std::string out, err;
    bool timedout = false;
    double deadline = now() + timeout_ms / 1000.0;
    int open_fds = 2;
    bool o_open = true, e_open = true;
    while (open_fds > 0) {
      struct pollfd pf[3]; int n = 0;
      int io = -1, ie = -1, ii = -1;
      if (o_open) { pf[n].fd = po[0]; pf[n].events = POLLIN; io = n++; }
      if (e_open) { pf[n].fd = pe[0]; pf[n].events = POLLIN; ie = n++; }
      if (pi[1] >= 0) { pf[n].fd = pi[1]; pf[n].events = POLLOUT; ii = n++; }
      double left = deadline - now();
      if (left <= 0) { timedout = true; break; }
      int r = poll(pf, n, (int)(left * 1000) + 1);
      if (r < 0 && errno == EINTR) continue;
      if (r == 0) { timedout = true; break; }
      char buf[65536];
      if (io >= 0 && (pf[io].revents & (POLLIN | POLLHUP))) {
	ssize_t k = read(po[0], buf, sizeof buf);
	if (k <= 0) { o_open = false; --open_fds; } else if (out.size() < (16u << 20)) out.append(buf, k);
      }
      if (ie >= 0 && (pf[ie].revents & (POLLIN | POLLHUP))) {
	ssize_t k = read(pe[0], buf, sizeof buf);
	if (k <= 0) { e_open = false; --open_fds; } else if (err.size() < (4u << 20)) err.append(buf, k);
      }
      if (ii >= 0 && (pf[ii].revents & (POLLOUT | POLLERR | POLLHUP))) {
	ssize_t k = write(pi[1], sin.data() + in_off, sin.size() - in_off);
	if (k > 0) in_off += k;
	if (k < 0 && errno != EAGAIN) in_off = sin.size();
	if (in_off >= sin.size()) { close(pi[1]); pi[1] = -1; }
      }
    }
    if (pi[1] >= 0) close(pi[1]);
    int st = 0;
    if (timedout) { kill(-pid, SIGKILL); kill(pid, SIGKILL); }
    else {
      // pipes closed: wait for the exit, but not forever (a grandchild might hold nothing, the tool might spin)
      for (;;) {
	pid_t w = waitpid(pid, &st, WNOHANG);
	if (w == pid) break;
	if (now() > deadline) { timedout = true; kill(-pid, SIGKILL); kill(pid, SIGKILL); break; }
	usleep(200);
      }
    }
    if (timedout) waitpid(pid, &st, 0);
    close(po[0]); close(pe[0]);
    int rc = WIFEXITED(st) ? WEXITSTATUS(st) : -1;
    int sig = WIFSIGNALED(st) ? WTERMSIG(st) : 0;
    fprintf(outp, "%d %d %d %zu %zu 0\n", rc, sig, timedout ? 1 : 0, out.size(), err.size());
    fwrite(out.data(), 1, out.size(), outp);
    fwrite(err.data(), 1, err.size(), outp);
    fflush(outp);
  }
  return 0;
}
