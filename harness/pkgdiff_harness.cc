// C31: the real abipkgdiff main() (tools/abipkgdiff.cc compiled with -Dmain=abipkgdiff_main and the
// pthread shim) under the controlled scheduler.  One forked child per execution (fresh globals,
// captured stdout).  No state pruning: the tool's shared state is not visible to the harness.
//   pkgdiff_harness explore NPROC DEVIATIONS MAXSCHED SCRATCH -- <abipkgdiff args...>
// DEVIATIONS bounds the number of non-default scheduling decisions (any kind) per execution.
//   pkgdiff_harness replay  NPROC "c0,c1,.." SCRATCH -- <abipkgdiff args...>
#include "../engines/vsched/explore.h"
#include <fcntl.h>
#include <fstream>
#include <iostream>
#include <map>
#include <sstream>
#include <sys/wait.h>
#include <unistd.h>
#include <csignal>

int abipkgdiff_main(int argc, char* argv[]);

static std::vector<std::string> ARGS;
static std::string SCRATCH;
static vsx::Explorer* EX;
static int child_rc = -1;

static void body()
{
  std::vector<std::string> a(ARGS);
  std::vector<char*> av;
  for (size_t i = 0; i < a.size(); ++i) av.push_back(&a[i][0]);
  av.push_back(0);
  child_rc = abipkgdiff_main((int)a.size(), &av[0]);
}

static void write_points(const char* status, const char* detail)
{
  std::ofstream f((SCRATCH + "/points.txt").c_str());
  f << status << " " << child_rc << "\n" << detail << "\n";
  for (size_t i = 0; i < EX->cur.points.size(); ++i) {
    const vsx::Point& p = EX->cur.points[i];
    f << p.kind << " " << p.n << " " << p.chosen << " " << p.running_enabled << " " << p.preempt_before;
    for (int k = 0; k < p.n; ++k) f << " " << p.opts[k].thread << ":" << p.opts[k].spurious;
    f << "\n";
  }
  if (EX->record_events) { f << "EVENTS\n"; for (size_t i = 0; i < EX->cur.events.size(); ++i) f << EX->cur.events[i] << "\n"; }
}

static void fatal_in_child(int status, const char* detail)
{
  std::cout.flush();
  write_points(status == VS_DEADLOCK ? "DEADLOCK" : status == VS_STEP_LIMIT ? "LIVELOCK" : "PROTOCOL", detail);
  _exit(0);
}

struct Result { std::string status, detail, out; int rc; };
static Result last;

static void forked_run(const std::vector<int>& pfx, const std::vector<std::pair<int, int> >& shape)
{
  unlink((SCRATCH + "/points.txt").c_str());
  fflush(stdout);
  pid_t pid = fork();
  if (pid == 0) {
    int fd = open((SCRATCH + "/out.txt").c_str(), O_WRONLY | O_CREAT | O_TRUNC, 0644); dup2(fd, 1); close(fd);
    fd = open((SCRATCH + "/err.txt").c_str(), O_WRONLY | O_CREAT | O_TRUNC, 0644); dup2(fd, 2); close(fd);
    vs_fatal_handler = fatal_in_child;
    EX->run(pfx, shape);
    std::cout.flush(); fflush(stdout);
    write_points("OK", "");
    _exit(0);
  }
  int st = 0; waitpid(pid, &st, 0);
  EX->cur.points.clear(); EX->cur.events.clear();
  last = Result(); last.rc = -1;
  std::ifstream f((SCRATCH + "/points.txt").c_str());
  if (!f.good() || !WIFEXITED(st) || WEXITSTATUS(st) != 0) {
    last.status = "CRASH";
    std::ostringstream d; d << "child ended with wait status " << st; last.detail = d.str();
    if (WIFEXITED(st) && WEXITSTATUS(st) == 71) { fprintf(stderr, "replay divergence in child\n"); exit(3); }
  }
  if (f.good()) {
    std::string line; std::getline(f, line);
    { std::istringstream in(line); in >> last.status >> last.rc; }
    std::getline(f, last.detail);
    bool ev = false;
    while (std::getline(f, line)) {
      if (line == "EVENTS") { ev = true; continue; }
      if (ev) { EX->cur.events.push_back(line); continue; }
      std::istringstream in(line); vsx::Point p; in >> p.kind >> p.n >> p.chosen >> p.running_enabled >> p.preempt_before;
      std::string o; while (in >> o) { vs_option op; op.thread = atoi(o.c_str()); op.spurious = o[o.size() - 1] == '1'; p.opts.push_back(op); }
      p.key = 0;
      EX->cur.points.push_back(p);
    }
  }
  std::ifstream o((SCRATCH + "/out.txt").c_str(), std::ios::binary); std::stringstream ss; ss << o.rdbuf(); last.out = ss.str();
}

static std::string jesc(const std::string& s)
{ std::string o; for (size_t i = 0; i < s.size(); ++i) { unsigned char c = s[i]; if (c == '"' || c == '\\') { o += '\\'; o += c; } else if (c == '\n') o += "\\n"; else if (c < 0x20) o += ' '; else o += c; } return o; }

int main(int argc, char** argv)
{
  if (argc < 6) return 2;
  std::string mode = argv[1];
  long nproc = atol(argv[2]);
  vsx::Explorer ex; EX = &ex;
  ex.body = body; ex.nproc = nproc; ex.prune = false; ex.max_steps = 100000; ex.deviation_mode = true;
  int i;
  std::string choices;
  if (mode == "explore") { ex.preempt_bound = atoi(argv[3]); ex.max_schedules = strtoull(argv[4], 0, 10); SCRATCH = argv[5]; i = 6; }
  else { choices = argv[3]; SCRATCH = argv[4]; i = 5; ex.record_events = true; }
  if (i < argc && std::string(argv[i]) == "--") ++i;
  ARGS.push_back("abipkgdiff");
  for (; i < argc; ++i) ARGS.push_back(argv[i]);
  ex.custom_run = forked_run;

  if (mode == "replay") {
    std::vector<int> c; std::istringstream in(choices); std::string t; while (std::getline(in, t, ',')) if (!t.empty()) c.push_back(atoi(t.c_str()));
    forked_run(c, std::vector<std::pair<int, int> >());
    printf("{\"status\":\"%s\",\"rc\":%d,\"detail\":\"%s\",\"points\":%zu,\"out\":\"%s\"}\n", last.status.c_str(), last.rc, jesc(last.detail).c_str(), ex.cur.points.size(), jesc(last.out).c_str());
    for (size_t k = 0; k < ex.cur.events.size(); ++k) printf("EVENT %s\n", ex.cur.events[k].c_str());
    return 0;
  }
  // reference observation = the default schedule
  std::map<std::string, int> outcomes;
  std::vector<std::string> viol;
  int nviol = 0;
  std::string ref_out; int ref_rc = 0; bool have_ref = false;
  ex.check = [&](const vsx::Execution& x) -> std::string {
    std::ostringstream k; k << last.status << "|" << last.rc << "|" << last.out;
    outcomes[k.str()]++;
    if (!have_ref && last.status == "OK") { have_ref = true; ref_out = last.out; ref_rc = last.rc; }
    if (last.status != "OK") return last.status + ": " + last.detail;
    if (last.rc != ref_rc || last.out != ref_out) { std::ostringstream e; e << "output/exit status differs from the default schedule (rc " << last.rc << " vs " << ref_rc << ")"; return e.str(); }
    return "";
  };
  ex.on_violation = [&](const std::string&, const std::string& what, const vsx::Execution& x) {
    ++nviol;
    if (viol.size() < 3) viol.push_back("{\"what\":\"" + jesc(what) + "\",\"choices\":\"" + vsx::Explorer::choices_str(x) + "\",\"rc\":" + std::to_string(last.rc) + ",\"out\":\"" + jesc(last.out.substr(0, 1500)) + "\"}");
  };
  ex.explore(std::vector<int>(), std::vector<std::pair<int, int> >());
  printf("{\"nproc\":%ld,\"preempt_bound\":%d,\"schedules\":%llu,\"choice_points\":%llu,\"completed\":%s,\"distinct_outcomes\":%zu,\"ref_rc\":%d,\"ref_out\":\"%s\",\"nviol\":%d,\"violations\":[",
	 nproc, ex.preempt_bound, ex.stats.schedules, ex.stats.choice_points, ex.stats.capped ? "false" : "true", outcomes.size(), ref_rc, jesc(ref_out).c_str(), nviol);
  for (size_t k = 0; k < viol.size(); ++k) printf("%s%s", k ? "," : "", viol[k].c_str());
  printf("]}\n");
  return 0;
}
