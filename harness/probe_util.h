// Shared helpers for in-process exhaustive probes.
#ifndef VF_PROBE_UTIL_H
#define VF_PROBE_UTIL_H
#include <csetjmp>
#include <csignal>
#include <cstdio>
#include <cstdlib>
#include <cstring>
#include <string>
#include <vector>
#include <map>
#include <sstream>

namespace vf {
static sigjmp_buf jb;
static volatile sig_atomic_t guarded = 0;
static int last_signal = 0;
static void on_sig(int s)
{
  if (guarded) { last_signal = s; siglongjmp(jb, 1); }
  signal(s, SIG_DFL); raise(s);
}
static void install_guards()
{
  struct sigaction sa; memset(&sa, 0, sizeof sa);
  sa.sa_handler = on_sig; sa.sa_flags = SA_NODEFER;
  sigaction(SIGABRT, &sa, 0); sigaction(SIGSEGV, &sa, 0);
  sigaction(SIGFPE, &sa, 0); sigaction(SIGBUS, &sa, 0);
}
// Use: if (VF_GUARD) { ...code...; VF_UNGUARD; } else { crashed with vf::last_signal }
#define VF_GUARD (vf::guarded = 1, sigsetjmp(vf::jb, 1) == 0)
#define VF_UNGUARD (vf::guarded = 0)

static std::string jesc(const std::string& s)
{
  std::string o;
  for (size_t i = 0; i < s.size(); ++i) {
    unsigned char c = s[i];
    if (c == '"' || c == '\\') { o += '\\'; o += c; }
    else if (c < 0x20 || c >= 0x7f) { char b[8]; snprintf(b, sizeof b, "\\u%04x", c); o += b; }
    else o += c;
  }
  return o;
}

struct Report {
  unsigned long long evaluations = 0, nontrivial = 0;
  std::map<std::string, unsigned long long> outcomes;
  std::vector<std::string> failures; // pre-rendered JSON objects
  std::map<std::string, int> per_sig;
  std::string sample;
  std::string extra; // JSON object body merged into the check's coverage counters
  void fail(const std::string& sig, const std::string& what, const std::string& elem_json)
  {
    if (++per_sig[sig] > 3) return;
    failures.push_back("{\"sig\":\"" + jesc(sig) + "\",\"what\":\"" + jesc(what) + "\",\"element\":" + elem_json + "}");
  }
  void print() const
  {
    printf("{\"evaluations\":%llu,\"nontrivial_count\":%llu,\"outcomes\":{", evaluations, nontrivial);
    bool first = true;
    for (auto& kv : outcomes) { printf("%s\"%s\":%llu", first ? "" : ",", jesc(kv.first).c_str(), kv.second); first = false; }
    printf("},\"failures\":[");
    for (size_t i = 0; i < failures.size(); ++i) printf("%s%s", i ? "," : "", failures[i].c_str());
    printf("],\"sig_counts\":{");
    first = true;
    for (auto& kv : per_sig) { printf("%s\"%s\":%d", first ? "" : ",", jesc(kv.first).c_str(), kv.second); first = false; }
    printf("}");
    if (!sample.empty()) printf(",\"sample\":%s", sample.c_str());
    if (!extra.empty()) printf(",\"extra\":{%s}", extra.c_str());
    printf("}\n");
  }
};
}
#endif
