// C42: explicit-state exploration of the interned-string pool.
// State  = (sequence of live handle contents, set of pool contents), reached by
//          replaying an operation history on a FRESH pool (the pool cannot be copied).
// Ops    = I(s) intern one of the alphabet strings and keep the handle,
//          C(i) copy handle i, X(i) clear handle i, D push a default-constructed handle,
//          A(i,j) assign handle j to handle i.
// Oracle = reference model std::vector<std::string> (contents) evaluated on every
//          reached state, over all pairs of handles and all alphabet strings.
//   apiprobe_c42 DEPTH            breadth-first search to DEPTH
//   apiprobe_c42 --one "<history>"  (ops separated by spaces, e.g. "I1 I1 C0 X1")
#include "probe_util.h"
#include "abg-interned-str.h"
#include "abg-ir.h"
#include <deque>
#include <set>
#include <unordered_set>

using std::string;
using std::vector;
using abigail::interned_string;
using abigail::interned_string_pool;

static vf::Report rep;
static vector<string> ALPHA;

struct Op { char k; int a, b; };
static string op_str(const Op& o)
{
  string s(1, o.k);
  if (o.k != 'D') s += std::to_string(o.a);
  if (o.k == 'A') s += "," + std::to_string(o.b);
  return s;
}
static string hist_str(const vector<Op>& h)
{ string s; for (size_t i = 0; i < h.size(); ++i) s += (i ? " " : "") + op_str(h[i]); return s; }

struct World {
  interned_string_pool pool;
  vector<interned_string> h;     // real handles
  vector<string> m;              // reference model: contents
  std::set<string> pool_model;
  bool use_env;
  abigail::ir::environment env;
  World(bool e) : use_env(e) { pool_model.insert(""); }
  interned_string intern(const string& s) { return use_env ? env.intern(s) : pool.create_string(s); }
  void apply(const Op& o)
  {
    switch (o.k) {
    case 'I': h.push_back(intern(ALPHA[o.a])); m.push_back(ALPHA[o.a]); pool_model.insert(ALPHA[o.a]); break;
    case 'C': { interned_string c(h[o.a]); h.push_back(c); m.push_back(m[o.a]); } break;
    case 'X': h[o.a].clear(); m[o.a] = ""; break;
    case 'D': h.push_back(interned_string()); m.push_back(""); break;
    case 'A': h[o.a] = h[o.b]; m[o.a] = m[o.b]; break;
    }
  }
};

static string canon(const World& w)
{
  string k;
  for (size_t i = 0; i < w.m.size(); ++i) { k += std::to_string(w.m[i].size()) + ":" + w.m[i] + "|"; }
  k += "#";
  for (std::set<string>::const_iterator i = w.pool_model.begin(); i != w.pool_model.end(); ++i) k += std::to_string(i->size()) + ":" + *i + "|";
  return k;
}

static string check_state(World& w)
{
  abigail::hash_interned_string H;
  for (size_t i = 0; i < w.h.size(); ++i) {
    const interned_string& a = w.h[i]; const string& ca = w.m[i];
    if (static_cast<string>(a) != ca) return "content: handle " + std::to_string(i) + " converts to a different string";
    if (a.empty() != ca.empty()) return "empty(): disagrees with content";
    for (size_t j = 0; j < w.h.size(); ++j) {
      const interned_string& b = w.h[j]; const string& cb = w.m[j];
      bool eqc = ca == cb;
      if ((a.raw() == b.raw()) != eqc) return "identity: handles " + std::to_string(i) + "," + std::to_string(j) + (eqc ? " have equal contents but are different objects" : " have different contents but are the same object");
      if ((a == b) != eqc) return "operator==(interned,interned) disagrees with contents";
      if ((a != b) != !eqc) return "operator!=(interned,interned) disagrees with contents";
      if ((a < b) != (ca < cb)) return "operator< disagrees with contents";
      if (eqc && H(a) != H(b)) return "hash: equal strings hash differently";
    }
    for (size_t s = 0; s < ALPHA.size(); ++s) {
      const string& x = ALPHA[s];
      if ((a == x) != (ca == x)) return "operator==(interned,string) disagrees with contents";
      if ((x == a) != (ca == x)) return "operator==(string,interned) disagrees with contents";
      if ((a != x) != (ca != x)) return "operator!=(interned,string) disagrees with contents";
      if ((x != a) != (ca != x)) return "operator!=(string,interned) disagrees with contents";
      if (a + x != ca + x || x + a != x + ca) return "operator+ disagrees with contents";
      // interning the plain string again must give the same object iff contents are equal
      interned_string again = w.intern(x);
      w.pool_model.insert(x);
      if ((again.raw() == a.raw()) != (ca == x)) return "re-intern: identity disagrees with contents";
    }
    std::ostringstream o; o << a;
    if (o.str() != ca) return "operator<< disagrees with contents";
  }
  // a hash set of the handles has exactly one entry per distinct content
  abigail::interned_string_set_type set;
  std::set<string> ref;
  for (size_t i = 0; i < w.h.size(); ++i) { set.insert(w.h[i]); ref.insert(w.m[i]); }
  if (set.size() != ref.size()) return "interned_string_set_type: size differs from the number of distinct contents";
  if (!w.use_env)
    for (std::set<string>::const_iterator i = w.pool_model.begin(); i != w.pool_model.end(); ++i)
      if (i->find('\0') == string::npos) {
	if (!w.pool.has_string(i->c_str())) return "has_string: an interned string is not found in the pool";
	const char* g = w.pool.get_string(i->c_str());
	if (!g || *i != g) return "get_string: returns a different string";
      }
  return "";
}

static bool run_history(const vector<Op>& hist, bool use_env, string& key, string& err, size_t& nh)
{
  World w(use_env);
  for (size_t i = 0; i < hist.size(); ++i) w.apply(hist[i]);
  key = canon(w);   // before check_state re-interns the whole alphabet
  nh = w.h.size();
  err = check_state(w);
  return err.empty();
}

static void fail(const vector<Op>& hist, bool use_env, const string& err)
{
  string cls = err.substr(0, err.find(':'));
  string e = "{\"one\":\"" + vf::jesc(hist_str(hist)) + "\",\"env\":" + (use_env ? "1" : "0") + "}";
  rep.fail("C42 api mismatch:" + cls + (use_env ? " environment::intern" : " interned_string_pool"), err + " after history [" + hist_str(hist) + "]", e);
}

int main(int argc, char** argv)
{
  vf::install_guards();
  ALPHA.push_back(""); ALPHA.push_back("a"); ALPHA.push_back("b"); ALPHA.push_back("aa");
  ALPHA.push_back("ab"); ALPHA.push_back(string("a\0b", 3));
  if (argc >= 3 && string(argv[1]) == "--one") {
    vector<Op> h; std::istringstream in(argv[2]); string t;
    while (in >> t) { Op o; o.k = t[0]; o.a = o.b = 0; if (t.size() > 1) { o.a = atoi(t.c_str() + 1); size_t c = t.find(','); if (c != string::npos) o.b = atoi(t.c_str() + c + 1); } h.push_back(o); }
    bool env = argc > 3 && atoi(argv[3]);
    string key, err; size_t nh;
    rep.evaluations = 1; rep.nontrivial = 1;
    if (!run_history(h, env, key, err, nh)) fail(h, env, err);
    rep.print();
    return 0;
  }
  int depth = argc > 1 ? atoi(argv[1]) : 4;
  unsigned long long states = 0, transitions = 0, replays_identical = 0;
  for (int use_env = 0; use_env <= 1; ++use_env) {
    std::unordered_set<string> seen;
    std::deque<vector<Op> > frontier;
    frontier.push_back(vector<Op>());
    { string k, e; size_t nh; run_history(vector<Op>(), use_env, k, e, nh); seen.insert(k); states++; }
    while (!frontier.empty()) {
      vector<Op> hist = frontier.front(); frontier.pop_front();
      string key0, err0; size_t nh = 0;
      run_history(hist, use_env, key0, err0, nh);
      // determinism gate: a history replayed on a fresh pool reaches the same canonical state
      { string k2, e2; size_t n2; run_history(hist, use_env, k2, e2, n2); if (k2 != key0) { fprintf(stderr, "replay divergence\n"); return 3; } replays_identical++; }
      if ((int)hist.size() >= depth) continue;
      vector<Op> ops;
      for (size_t s = 0; s < ALPHA.size(); ++s) { Op o = {'I', (int)s, 0}; ops.push_back(o); }
      { Op o = {'D', 0, 0}; ops.push_back(o); }
      for (size_t i = 0; i < nh; ++i) {
	Op c = {'C', (int)i, 0}; ops.push_back(c);
	Op x = {'X', (int)i, 0}; ops.push_back(x);
	for (size_t j = 0; j < nh; ++j) if (i != j) { Op a = {'A', (int)i, (int)j}; ops.push_back(a); }
      }
      for (size_t k = 0; k < ops.size(); ++k) {
	vector<Op> nh2 = hist; nh2.push_back(ops[k]);
	string key, err; size_t n;
	transitions++; rep.evaluations++;
	bool ok;
	if (VF_GUARD) { ok = run_history(nh2, use_env, key, err, n); VF_UNGUARD; }
	else { VF_UNGUARD; ok = false; err = "crash: signal " + std::to_string(vf::last_signal); }
	if (!ok) { fail(nh2, use_env, err); rep.outcomes["bad"]++; continue; }
	rep.outcomes[string("ok-") + ops[k].k]++;
	if (seen.insert(key).second) {
	  states++;
	  // non-trivial: at least two handles with equal contents and two with different contents
	  rep.nontrivial++;
	  frontier.push_back(nh2);
	  if (rep.sample.empty() && nh2.size() == 4 && ops[k].k == 'A') rep.sample = "\"" + vf::jesc(hist_str(nh2)) + "\"";
	}
      }
    }
  }
  // extra counters
  rep.extra = "\"states\":" + std::to_string(states) + ",\"transitions\":" + std::to_string(transitions)
    + ",\"traces_validated_against_impl\":" + std::to_string(transitions) + ",\"replays_identical\":" + std::to_string(replays_identical);
  rep.print();
  return 0;
}
