// INI / suppression text space (engine E5).  Serves C25 (no crash) and C39 (round trips).
//   apiprobe_ini text  L SHARD NSHARDS NMIN PREFIXID   every token string of length NMIN<len<=L appended to a prefix
//   apiprobe_ini conf  DEPTH SHARD NSHARDS             every generated configuration (C39a)
//   apiprobe_ini --one text "<bytes>"  | --one conf "<spec>"
// For every text:  (1) ini::read_config, (2) suppr::read_suppressions, (3) write/read round trip.
// Crashes / aborts / hangs inside a call are caught (signal handlers + timer) and reported with the
// innermost operation as site.
#include "probe_util.h"
#include "abg-ini.h"
#include "abg-suppression.h"
#include <sys/time.h>
#include <sys/wait.h>
#include <unistd.h>
#include <fcntl.h>
#include <fstream>

using std::string;
using std::vector;
using namespace abigail;

static vf::Report rep;
static string J(const string& s) { return "\"" + vf::jesc(s) + "\""; }
static void arm(int ms) { struct itimerval it; memset(&it, 0, sizeof it); it.it_value.tv_sec = ms / 1000; it.it_value.tv_usec = (ms % 1000) * 1000; setitimer(ITIMER_REAL, &it, 0); }
static void on_alarm(int) { if (vf::guarded) { vf::last_signal = SIGALRM; siglongjmp(vf::jb, 1); } }
static const char* signame() { return vf::last_signal == SIGALRM ? "hang" : vf::last_signal == SIGABRT ? "abort" : "segv"; }

// ---- structural rendering of a config (normal form)
// A property value is rendered as a nested list of strings; inside a tuple adjacent
// string / list items are merged (the reader cannot tell "{a,b}" tuple-of-two-strings
// from tuple-of-one-list, so both are the same configuration for the oracle).
static string render_value(const ini::property_value_sptr& v);
static void flat_items(const ini::property_value_sptr& v, vector<string>& out)
{
  if (ini::string_property_value_sptr s = ini::is_string_property_value(v)) out.push_back(J(s->as_string()));
  else if (ini::list_property_value_sptr l = ini::is_list_property_value(v))
    for (size_t i = 0; i < l->get_content().size(); ++i) out.push_back(J(l->get_content()[i]));
  else out.push_back(render_value(v));
}
static string render_value(const ini::property_value_sptr& v)
{
  if (!v) return "null";
  vector<string> items;
  if (ini::tuple_property_value_sptr t = ini::is_tuple_property_value(v)) {
    for (size_t i = 0; i < t->get_value_items().size(); ++i) flat_items(t->get_value_items()[i], items);
    string s = "T(";
    for (size_t i = 0; i < items.size(); ++i) s += (i ? "," : "") + items[i];
    return s + ")";
  }
  flat_items(v, items);
  string s = "L(";
  for (size_t i = 0; i < items.size(); ++i) s += (i ? "," : "") + items[i];
  return s + ")";
}
static string render_config(const ini::config& c)
{
  string s;
  for (size_t i = 0; i < c.get_sections().size(); ++i) {
    const ini::config::section& sec = *c.get_sections()[i];
    s += "[" + J(sec.get_name()) + ":";
    for (size_t k = 0; k < sec.get_properties().size(); ++k) {
      ini::property_sptr p = sec.get_properties()[k];
      s += J(p->get_name()) + "=";
      if (ini::simple_property_sptr sp = ini::is_simple_property(p)) {
	if (sp->has_empty_value()) s += "L()"; else s += render_value(sp->get_value());
      } else if (ini::list_property_sptr lp = ini::is_list_property(p)) s += render_value(lp->get_value());
      else if (ini::tuple_property_sptr tp = ini::is_tuple_property(p)) s += render_value(tp->get_value());
      s += ";";
    }
    s += "]";
  }
  return s;
}

// ---- one text
static void check_text(const string& text, bool do_roundtrip)
{
  rep.evaluations++;
  string e = "{\"one\":[\"text\"," + J(text) + "]}";
  // (1) ini::read_config
  ini::config conf1; bool ok1 = false;
  if (VF_GUARD) { arm(1500); std::istringstream in(text); ok1 = ini::read_config(in, conf1); arm(0); VF_UNGUARD; }
  else {
    VF_UNGUARD; arm(0);
    rep.outcomes[string("read_config-") + signame()]++;
    rep.fail(string("C25 api ") + signame() + " ini::read_config", string("ini::read_config ") + signame() + " on " + J(text), e);
    return;
  }
  bool nontriv = !conf1.get_sections().empty();
  if (nontriv) rep.nontrivial++;
  // (2) suppr::read_suppressions
  if (VF_GUARD) { arm(1500); std::istringstream in(text); suppr::suppressions_type ss; suppr::read_suppressions(in, ss); arm(0); VF_UNGUARD;
    rep.outcomes["suppr-" + std::to_string(std::min<size_t>(ss.size(), 3))]++;
  } else {
    VF_UNGUARD; arm(0);
    rep.outcomes[string("read_suppressions-") + signame()]++;
    rep.fail(string("C25 api ") + signame() + " suppr::read_suppressions", string("suppr::read_suppressions ") + signame() + " on " + J(text), e);
  }
  // (3) read -> write -> read
  if (do_roundtrip && ok1) {
    string r1 = render_config(conf1), r2, w1;
    if (VF_GUARD) {
      arm(1500);
      std::ostringstream out; ini::write_config(conf1, out); w1 = out.str();
      std::istringstream in2(w1); ini::config conf2; ini::read_config(in2, conf2); r2 = render_config(conf2);
      arm(0); VF_UNGUARD;
    } else {
      VF_UNGUARD; arm(0);
      rep.fail(string("C39 api ") + signame() + " write-read", string("write_config/read_config ") + signame() + " after reading " + J(text), e);
      return;
    }
    if (r1 != r2) {
      // input class: does the first read contain characters the writer would have to escape?
      bool esc = text.find('\\') != string::npos;
      // a value (in the normal-form rendering: right after a quote that follows '(' or ',') that starts with '=', '[' or ']'
      bool lead = false;
      for (size_t i = 0; i + 2 < r1.size(); ++i)
	if ((r1[i] == '(' || r1[i] == ',') && r1[i + 1] == '"' && (r1[i + 2] == '=' || r1[i + 2] == '[' || r1[i + 2] == ']')) lead = true;
      rep.outcomes["roundtrip-bad"]++;
      rep.fail(string("C39 api mismatch:read-write-read ini ") + (esc ? "escaped-char-in-text" : lead ? "value-with-leading-delimiter" : "other-plain-text"),
	       "read(" + J(text) + ") = " + r1 + " but read(write(that)) = " + r2 + " via " + J(w1), e);
    } else rep.outcomes[nontriv ? "roundtrip-ok" : "roundtrip-empty"]++;
  }
  if (rep.sample.empty() && conf1.get_sections().size() == 1 && text.size() > 10) rep.sample = e;
}

// ---- fork-per-text mode: used to pin down a sanitizer-detected error that kills the process
static bool fork_each = false;
static void check_text_isolated(const string& text)
{
  if (!fork_each) { check_text(text, true); return; }
  int pfd[2]; if (pipe(pfd)) { perror("pipe"); exit(5); }
  fflush(stdout);
  pid_t pid = fork();
  if (pid == 0) {
    close(pfd[0]); dup2(pfd[1], 2); close(pfd[1]);
    int devnull = open("/dev/null", O_WRONLY); dup2(devnull, 1);
    check_text(text, true);
    _exit(0);
  }
  close(pfd[1]);
  string err; char buf[4096]; ssize_t n;
  while ((n = read(pfd[0], buf, sizeof buf)) > 0) if (err.size() < 20000) err.append(buf, n);
  close(pfd[0]);
  int st = 0; waitpid(pid, &st, 0);
  if (WIFEXITED(st) && WEXITSTATUS(st) == 0) { check_text(text, true); return; }
  rep.evaluations++;
  string kind = "died", site = "unknown";
  size_t p = err.find("AddressSanitizer: ");
  if (p != string::npos) { kind = "asan:" + err.substr(p + 18, err.find_first_of(" \n", p + 18) - (p + 18)); }
  else if ((p = err.find("runtime error: ")) != string::npos) kind = "ubsan";
  else if (WIFSIGNALED(st)) kind = "signal" + std::to_string(WTERMSIG(st));
  p = err.find("abigail::");
  if (p != string::npos) { size_t q = err.find_first_of("(<\n ", p); site = err.substr(p, q - p); }
  string e = "{\"one\":[\"text\"," + J(text) + "]}";
  rep.outcomes[kind]++;
  rep.fail("C25 api " + kind + " " + site, kind + " in " + site + " on " + J(text) + ": " + err.substr(0, 300), e);
}

// ---- token strings
static const char* TOK_INI[] = {"[", "]", "=", ",", "{", "}", "\n", "a", "b c", "\\", ";", " ", "#"};
static const char* TOK_BODY[] = {"n", "=", ",", "{", "}", "\n", "a", "\\", " ", ";", "[", "("};
static const char* PREFIX[] = {"", "[s]\n", "[s]\nn = ", "[suppress_type]\nname = ", "[suppress_function]\nparameter = ", "[suppress_type]\nhas_data_member_inserted_between = "};

static void sweep_text(int L, int shard, int nsh, int nmin, int prefix_id)
{
  const char** toks = prefix_id == 0 ? TOK_INI : TOK_BODY;
  int nt = prefix_id == 0 ? 13 : 12;
  string prefix = PREFIX[prefix_id];
  unsigned long long idx = 0;
  vector<int> d;
  for (int len = (nmin < 0 ? 0 : nmin + 1); len <= L; ++len) {
    d.assign(len, 0);
    for (;;) {
      if ((int)(idx++ % nsh) == shard) {
	string s = prefix;
	for (int i = 0; i < len; ++i) s += toks[d[i]];
	check_text_isolated(s);
      }
      int p = len - 1;
      while (p >= 0 && ++d[p] == nt) d[p--] = 0;
      if (p < 0) break;
    }
  }
}

// ---- generated configurations (C39a): write -> read == original (normal form)
static const char* VALS[] = {"a", "a b", "b=c", "x[1]", "^f.*$", "/p/q.h"};
// list_property_value has no out-of-line destructor, so it cannot be constructed
// outside the library; obtain list values from the reader and verify their content.
static ini::property_value_sptr mklist(const vector<string>& l)
{
  string t = "[x]\nx = ";
  for (size_t i = 0; i < l.size(); ++i) t += (i ? "," : "") + l[i];
  t += "\n";
  std::istringstream in(t); ini::config c;
  if (!ini::read_config(in, c) || c.get_sections().size() != 1) { fprintf(stderr, "mklist: cannot read %s\n", t.c_str()); exit(4); }
  ini::list_property_sptr lp = ini::is_list_property(c.get_sections()[0]->get_properties()[0]);
  if (!lp || lp->get_value()->get_content() != l) { fprintf(stderr, "mklist: bad content for %s\n", t.c_str()); exit(4); }
  return lp->get_value();
}
static ini::property_value_sptr mkval(int kind, int v1, int v2, int v3)
{
  using namespace ini;
  switch (kind) {
  case 0: return property_value_sptr(new string_property_value(VALS[v1]));
  case 1: { vector<string> l; l.push_back(VALS[v1]); l.push_back(VALS[v2]); return mklist(l); }
  case 2: { vector<string> l; l.push_back(VALS[v1]); l.push_back(VALS[v2]); l.push_back(VALS[v3]); return mklist(l); }
  case 3: { vector<property_value_sptr> t; t.push_back(mkval(0, v1, 0, 0)); t.push_back(mkval(0, v2, 0, 0)); return property_value_sptr(new tuple_property_value(t)); }
  case 4: { vector<property_value_sptr> t; t.push_back(mkval(1, v1, v2, 0)); return property_value_sptr(new tuple_property_value(t)); }
  case 5: { vector<property_value_sptr> t; t.push_back(mkval(3, v1, v2, 0)); t.push_back(mkval(3, v2, v3, 0)); return property_value_sptr(new tuple_property_value(t)); }
  case 6: { vector<property_value_sptr> t; t.push_back(mkval(3, v1, v2, 0)); t.push_back(mkval(0, v3, 0, 0)); return property_value_sptr(new tuple_property_value(t)); }
  }
  return property_value_sptr();
}
static ini::property_sptr mkprop(const string& name, int code)
{
  using namespace ini;
  // code: kind*216 + v1*36 + v2*6 + v3 ; kind 7 = valueless
  int kind = code / 216, v1 = (code / 36) % 6, v2 = (code / 6) % 6, v3 = code % 6;
  if (kind == 7) return property_sptr(new simple_property(name));
  property_value_sptr v = mkval(kind, v1, v2, v3);
  if (string_property_value_sptr s = is_string_property_value(v)) return property_sptr(new simple_property(name, s));
  if (list_property_value_sptr l = is_list_property_value(v)) return property_sptr(new list_property(name, l));
  return property_sptr(new tuple_property(name, is_tuple_property_value(v)));
}
static bool code_canonical(int code)
{
  int kind = code / 216, v2 = (code / 6) % 6, v3 = code % 6;
  if (kind == 7) return code % 216 == 0;
  if (kind == 0) return v2 == 0 && v3 == 0;
  if (kind == 1 || kind == 3 || kind == 4) return v3 == 0;
  return true;
}
static void check_conf(const vector<int>& codes, int nsections)
{
  rep.evaluations++;
  string spec;
  for (size_t i = 0; i < codes.size(); ++i) spec += (i ? "," : "") + std::to_string(codes[i]);
  spec += "/" + std::to_string(nsections);
  string e = "{\"one\":[\"conf\"," + J(spec) + "]}";
  ini::config::sections_type secs;
  size_t per = (codes.size() + nsections - 1) / nsections;
  for (int s = 0; s < nsections; ++s) {
    ini::config::properties_type props;
    for (size_t k = s * per; k < codes.size() && k < (s + 1) * per; ++k)
      props.push_back(mkprop(k % 2 ? "name_regexp" : "n" + std::to_string(k), codes[k]));
    if (props.empty()) continue;
    secs.push_back(ini::config::section_sptr(new ini::config::section(s ? "suppress_type" : "s 1", props)));
  }
  ini::config c0; c0.set_sections(secs);
  string r0 = render_config(c0), r1, w;
  rep.nontrivial++;
  if (VF_GUARD) {
    arm(1500);
    std::ostringstream out; ini::write_config(c0, out); w = out.str();
    std::istringstream in(w); ini::config c1; ini::read_config(in, c1); r1 = render_config(c1);
    arm(0); VF_UNGUARD;
  } else {
    VF_UNGUARD; arm(0);
    rep.fail(string("C39 api ") + signame() + " write-read generated-config", string("write_config/read_config ") + signame() + " on generated configuration " + spec, e);
    rep.outcomes["crash"]++;
    return;
  }
  if (r0 != r1) {
    rep.outcomes["bad"]++;
    rep.fail("C39 api mismatch:write-read ini generated-config", "configuration " + r0 + " written as " + J(w) + " reads back as " + r1, e);
  } else rep.outcomes["ok"]++;
  if (rep.sample.empty() && codes.size() == 2 && codes[0] / 216 == 5) rep.sample = e;
}

static void sweep_conf(int depth, int shard, int nsh)
{
  vector<int> canon;
  for (int c = 0; c < 8 * 216; ++c) if (code_canonical(c)) canon.push_back(c);
  unsigned long long idx = 0;
  // one property: all; two properties: all pairs from a reduced set (stride) at depth 1, all pairs at depth 2
  for (size_t i = 0; i < canon.size(); ++i)
    if ((int)(idx++ % nsh) == shard) { vector<int> v(1, canon[i]); check_conf(v, 1); }
  vector<int> core;
  for (size_t i = 0; i < canon.size(); ++i) if (depth >= 2 || i % 7 == 0) core.push_back(canon[i]);
  for (size_t i = 0; i < core.size(); ++i)
    for (size_t j = 0; j < core.size(); ++j)
      if ((int)(idx++ % nsh) == shard) {
	vector<int> v; v.push_back(core[i]); v.push_back(core[j]);
	check_conf(v, 1); check_conf(v, 2);
      }
}

int main(int argc, char** argv)
{
  vf::install_guards();
  struct sigaction sa; memset(&sa, 0, sizeof sa); sa.sa_handler = on_alarm; sa.sa_flags = SA_NODEFER;
  sigaction(SIGALRM, &sa, 0);
  if (argc >= 2 && string(argv[1]) == "--fork-each") { fork_each = true; --argc; ++argv; }
  if (argc >= 4 && string(argv[1]) == "--one") {
    if (string(argv[2]) == "text") check_text_isolated(argv[3]);
    else {
      string spec = argv[3]; vector<int> codes; int ns = 1;
      size_t sl = spec.find('/'); if (sl != string::npos) { ns = atoi(spec.c_str() + sl + 1); spec = spec.substr(0, sl); }
      std::istringstream in(spec); string t; while (std::getline(in, t, ',')) codes.push_back(atoi(t.c_str()));
      check_conf(codes, ns);
    }
    rep.print();
    return 0;
  }
  if (argc >= 3 && string(argv[1]) == "file") {
    // NUL-separated documents
    std::ifstream f(argv[2], std::ios::binary); std::stringstream ss; ss << f.rdbuf(); string all = ss.str();
    size_t b = 0;
    while (b < all.size()) { size_t z = all.find('\0', b); if (z == string::npos) z = all.size(); check_text_isolated(all.substr(b, z - b)); b = z + 1; }
    rep.print();
    return 0;
  }
  if (argc < 5) return 2;
  string mode = argv[1];
  if (mode == "text") sweep_text(atoi(argv[2]), atoi(argv[3]), atoi(argv[4]), argc > 5 ? atoi(argv[5]) : -1, argc > 6 ? atoi(argv[6]) : 0);
  else sweep_conf(atoi(argv[2]), atoi(argv[3]), atoi(argv[4]));
  rep.print();
  return 0;
}
