// C20 oracle 2: for EVERY pair of types of a corpus (all types loaded), canonical-type
// identity must coincide with structural equality.  Built against the debugtc variant
// (-DWITH_DEBUG_TYPE_CANONICALIZATION, -fno-access-control) so that the switch
// environment::priv_->use_canonical_type_comparison_ used by libabigail's own debug
// check is available.
//   apiprobe_canon FILE [FILE2 ...]   (all files are loaded into one environment)
#include "probe_util.h"
#include "abg-dwarf-reader.h"
#include "abg-corpus.h"
#include "abg-ir.h"
#include "abg-ir-priv.h"
#include <set>

using namespace abigail;
using namespace abigail::ir;
using std::string;
using std::vector;

static vf::Report rep;
static string J(const string& s) { return "\"" + vf::jesc(s) + "\""; }

static void collect(const istring_type_base_wptrs_map_type& m, vector<type_base_sptr>& out, std::set<type_base*>& seen)
{
  for (istring_type_base_wptrs_map_type::const_iterator i = m.begin(); i != m.end(); ++i)
    for (vector<type_base_wptr>::const_iterator j = i->second.begin(); j != i->second.end(); ++j) {
      type_base_sptr t(*j);
      if (t && seen.insert(t.get()).second) out.push_back(t);
    }
}

int main(int argc, char** argv)
{
  if (argc < 2) return 2;
  vf::install_guards();
  environment_sptr env(new environment);
  vector<char**> di;
  vector<type_base_sptr> types;
  std::set<type_base*> seen;
  vector<corpus_sptr> corpora;      // every FILE is loaded into the SAME environment (one canonical-type table), like abidiff does
  for (int k = 1; k < argc; ++k) {
  dwarf_reader::read_context_sptr ctxt = dwarf_reader::create_read_context(argv[k], di, env.get(), /*load_all_types=*/true, true);
  elf_reader::status st = elf_reader::STATUS_UNKNOWN;
  corpus_sptr c = dwarf_reader::read_corpus_from_elf(*ctxt, st);
  if (!c) { printf("{\"evaluations\":0,\"nontrivial_count\":0,\"outcomes\":{\"not-loaded\":1},\"failures\":[],\"sig_counts\":{}}\n"); return 0; }
  corpora.push_back(c);
  for (translation_units::const_iterator tu = c->get_translation_units().begin(); tu != c->get_translation_units().end(); ++tu) {
    const type_maps& m = (*tu)->get_types();
    collect(m.basic_types(), types, seen); collect(m.class_types(), types, seen); collect(m.union_types(), types, seen);
    collect(m.enum_types(), types, seen); collect(m.typedef_types(), types, seen); collect(m.qualified_types(), types, seen);
    collect(m.pointer_types(), types, seen); collect(m.reference_types(), types, seen); collect(m.array_types(), types, seen);
    collect(m.subrange_types(), types, seen); collect(m.function_types(), types, seen);
  }
  }
  string file = argv[1];
  for (int k = 2; k < argc; ++k) file += string(" ") + argv[k];
  for (size_t i = 0; i < types.size(); ++i)
    for (size_t j = i; j < types.size(); ++j) {
      type_base_sptr a = types[i], b = types[j];
      type_base_sptr ca = a->get_canonical_type(), cb = b->get_canonical_type();
      if (!ca || !cb) { rep.outcomes["not-canonicalized"]++; continue; }   // documented non-canonicalized kinds
      rep.evaluations++;
      bool canon_eq = ca.get() == cb.get();
      bool struct_eq = false;
      if (VF_GUARD) {
	env->priv_->use_canonical_type_comparison_ = false;
	struct_eq = (*a == *b);
	env->priv_->use_canonical_type_comparison_ = true;
	VF_UNGUARD;
      } else { VF_UNGUARD; env->priv_->use_canonical_type_comparison_ = true; rep.outcomes["crash"]++; continue; }
      if (i != j && canon_eq) rep.nontrivial++;
      if (canon_eq != struct_eq) {
	string ka = a->get_pretty_representation(true, true), kb = b->get_pretty_representation(true, true);
	string kind = is_function_type(a) ? "function-type" : is_class_or_union_type(a) ? "class-or-union" : is_typedef(a) ? "typedef" : is_pointer_type(a) ? "pointer" : is_qualified_type(a) ? "qualified" : is_array_type(a) ? "array" : is_enum_type(a) ? "enum" : "other";
	rep.outcomes["disagree"]++;
	rep.fail("C20 api mismatch:" + string(canon_eq ? "same-canonical-but-structurally-different" : "structurally-equal-but-different-canonical") + " " + kind,
		 "types '" + ka + "' and '" + kb + "': canonical types " + (canon_eq ? "identical" : "different") + " but structural comparison says " + (struct_eq ? "equal" : "different"),
		 "{\"file\":" + J(file) + "}");
      } else rep.outcomes[canon_eq ? "equal" : "different"]++;
    }
  rep.print();
  return 0;
}
