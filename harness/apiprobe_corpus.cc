// Dump what the public corpus API exposes for an ELF file (C17, C28):
// interface functions/variables with their symbols, unreferenced symbols, symbol tables.
//   apiprobe_corpus FILE [--no-linux-kernel-mode]
#include "probe_util.h"
#include "abg-dwarf-reader.h"
#include "abg-corpus.h"
#include "abg-ir.h"
#include <iostream>

using namespace abigail;
using std::string;
using std::vector;

static string J(const string& s) { return "\"" + vf::jesc(s) + "\""; }

template <class V> static string symlist(const V& v)
{
  string s = "[";
  bool first = true;
  for (typename V::const_iterator i = v.begin(); i != v.end(); ++i) {
    s += (first ? "" : ",") + J((*i)->get_id_string());
    first = false;
  }
  return s + "]";
}

int main(int argc, char** argv)
{
  if (argc < 2) return 2;
  bool kernel_mode = true;
  for (int i = 2; i < argc; ++i) if (string(argv[i]) == "--no-linux-kernel-mode") kernel_mode = false;
  ir::environment_sptr env(new ir::environment);
  vector<char**> di;
  dwarf_reader::read_context_sptr ctxt = dwarf_reader::create_read_context(argv[1], di, env.get(), /*load_all_types=*/false, kernel_mode);
  elf_reader::status st = elf_reader::STATUS_UNKNOWN;
  corpus_sptr c = dwarf_reader::read_corpus_from_elf(*ctxt, st);
  if (!c) { printf("{\"loaded\":false,\"status\":%d}\n", (int)st); return 0; }
  string out = "{\"loaded\":true,\"status\":" + std::to_string((int)st) + ",\"functions\":[";
  bool first = true;
  for (corpus::functions::const_iterator i = c->get_functions().begin(); i != c->get_functions().end(); ++i) {
    elf_symbol_sptr s = (*i)->get_symbol();
    out += string(first ? "" : ",") + "{\"name\":" + J((*i)->get_name()) + ",\"linkage\":" + J((*i)->get_linkage_name()) + ",\"symbol\":" + (s ? J(s->get_id_string()) : "null") + "}";
    first = false;
  }
  out += "],\"variables\":[";
  first = true;
  for (corpus::variables::const_iterator i = c->get_variables().begin(); i != c->get_variables().end(); ++i) {
    elf_symbol_sptr s = (*i)->get_symbol();
    out += string(first ? "" : ",") + "{\"name\":" + J((*i)->get_name()) + ",\"symbol\":" + (s ? J(s->get_id_string()) : "null") + "}";
    first = false;
  }
  out += "],\"unreferenced_function_symbols\":" + symlist(c->get_unreferenced_function_symbols());
  out += ",\"unreferenced_variable_symbols\":" + symlist(c->get_unreferenced_variable_symbols());
  out += ",\"function_symbols\":" + symlist(c->get_sorted_fun_symbols());
  out += ",\"variable_symbols\":" + symlist(c->get_sorted_var_symbols());
  // alias sets of every symbol
  out += ",\"aliases\":{";
  first = true;
  for (elf_symbols::const_iterator i = c->get_sorted_fun_symbols().begin(); i != c->get_sorted_fun_symbols().end(); ++i) {
    out += string(first ? "" : ",") + J((*i)->get_id_string()) + ":" + J((*i)->get_aliases_id_string(false));
    first = false;
  }
  for (elf_symbols::const_iterator i = c->get_sorted_var_symbols().begin(); i != c->get_sorted_var_symbols().end(); ++i) {
    out += string(first ? "" : ",") + J((*i)->get_id_string()) + ":" + J((*i)->get_aliases_id_string(false));
    first = false;
  }
  out += "}}";
  puts(out.c_str());
  return 0;
}
