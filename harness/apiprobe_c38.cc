// C38: exhaustive check of abigail::diff_utils::compute_diff over all pairs of
// short sequences, against an O(n*m) LCS table.
//   apiprobe_c38 K N PRED SUB SHARD NSHARDS [NMIN]  (all pairs with A in shard, skipping pairs with both lengths <= NMIN)
//   apiprobe_c38 --one A B PRED SUB
// PRED: eq | ci (case-insensitive chars) | mod2 (ints compared modulo 2)
// SUB:  0 = whole sequences, 1 = sub-ranges of larger buffers (a_base != a_begin)
#include "probe_util.h"
#include "abg-diff-utils.h"
#include <cctype>

using namespace abigail::diff_utils;
using std::string;
using std::vector;

struct ci_eq { bool operator()(char a, char b) const { return tolower(a) == tolower(b); } };
struct mod2_eq { bool operator()(int a, int b) const { return (a & 1) == (b & 1); } };

static const char* LETTERS_EQ = "abc";
static const char* LETTERS_CI = "aAb";

static vf::Report rep;

template <typename T, typename Eq>
static int lcs_len(const vector<T>& a, const vector<T>& b, Eq eq)
{
  vector<vector<int> > t(a.size() + 1, vector<int>(b.size() + 1, 0));
  for (size_t i = 1; i <= a.size(); ++i)
    for (size_t j = 1; j <= b.size(); ++j)
      t[i][j] = eq(a[i - 1], b[j - 1]) ? t[i - 1][j - 1] + 1 : std::max(t[i - 1][j], t[i][j - 1]);
  return t[a.size()][b.size()];
}

template <typename T>
static string show(const vector<T>& v)
{
  string s;
  for (size_t i = 0; i < v.size(); ++i) s += (char)(sizeof(T) == 1 ? v[i] : ('0' + v[i]));
  return s;
}

template <typename T, typename Eq>
static void check_pair(const vector<T>& A, const vector<T>& B, const string& pred, int sub)
{
  Eq eq;
  // build buffers
  vector<T> abuf, bbuf;
  int a_off = 0, b_off = 0;
  if (sub) {
    a_off = 2; b_off = 1;
    abuf.push_back(A.empty() ? T(0) + 'z' : A[0]); abuf.push_back(T('y'));
    bbuf.push_back(B.empty() ? T('z') : B[B.size() - 1]);
  }
  abuf.insert(abuf.end(), A.begin(), A.end());
  bbuf.insert(bbuf.end(), B.begin(), B.end());
  if (sub) { abuf.push_back(T('x')); bbuf.push_back(T('w')); bbuf.push_back(T('v')); }
  // never let the vector data pointer be null for empty sequences
  abuf.reserve(abuf.size() + 1); bbuf.reserve(bbuf.size() + 1);

  string elem = "{\"one\":[\"" + show(A) + "\",\"" + show(B) + "\"],\"pred\":\"" + pred + "\",\"sub\":" + (sub ? "1" : "0") + "}";
  int L = lcs_len(A, B, eq);
  int expected = (int)A.size() + (int)B.size() - 2 * L;
  rep.evaluations++;
  bool nontriv = L > 0 && L < (int)std::min(A.size(), B.size());
  if (nontriv) rep.nontrivial++;
  if (rep.sample.empty() && nontriv && A.size() >= 3) rep.sample = elem;

  vector<point> lcs; edit_script ses; int ses_len = -12345;
  typedef typename vector<T>::const_iterator It;
  It ab = abuf.begin(), bb = bbuf.begin();
  string sigbase = string("C38 api ");
  string site = string(sub ? "compute_diff-subrange " : "compute_diff ") + "pred-" + pred;
  if (VF_GUARD) {
    compute_diff<It, Eq>(ab, ab + a_off, ab + a_off + A.size(),
			 bb, bb + b_off, bb + b_off + B.size(), lcs, ses, ses_len);
    VF_UNGUARD;
  } else {
    VF_UNGUARD;
    rep.outcomes["crash"]++;
    rep.fail(sigbase + (vf::last_signal == SIGABRT ? "abort " : "segv ") + site, "compute_diff crashed (signal " + std::to_string(vf::last_signal) + ") on " + elem, elem);
    return;
  }
  bool bad = false;
  if (ses.length() != expected || ses_len != expected) {
    bad = true;
    rep.fail(sigbase + "mismatch:ses-length " + site,
	     "edit script length " + std::to_string(ses.length()) + " (ses_len " + std::to_string(ses_len) + ") != |A|+|B|-2*LCS = " + std::to_string(expected) + " on " + elem, elem);
  }
  // apply the script
  {
    vector<bool> del(abuf.size(), false);
    bool range_ok = true;
    for (size_t i = 0; i < ses.deletions().size(); ++i) {
      int x = ses.deletions()[i].index();
      if (x < a_off || x >= a_off + (int)A.size() || del[x]) range_ok = false; else del[x] = true;
    }
    vector<T> out;
    for (int i = a_off - 1; range_ok && i < a_off + (int)A.size(); ++i) {
      if (i >= a_off && !del[i]) out.push_back(abuf[i]);
      for (size_t k = 0; k < ses.insertions().size(); ++k)
	if (ses.insertions()[k].insertion_point_index() == i)
	  for (size_t m = 0; m < ses.insertions()[k].inserted_indexes().size(); ++m) {
	    unsigned y = ses.insertions()[k].inserted_indexes()[m];
	    if ((int)y < b_off || y >= b_off + B.size()) range_ok = false; else out.push_back(bbuf[y]);
	  }
    }
    for (size_t k = 0; k < ses.insertions().size(); ++k) {
      int p = ses.insertions()[k].insertion_point_index();
      if (p < a_off - 1 || p >= a_off + (int)A.size()) range_ok = false;
    }
    bool same = range_ok && out.size() == B.size();
    for (size_t i = 0; same && i < B.size(); ++i) same = eq(out[i], B[i]);
    if (!same) {
      bad = true;
      rep.fail(sigbase + "mismatch:apply " + site,
	       string(range_ok ? "applying the edit script to A yields \"" + show(out) + "\" not B" : "edit script has out-of-range or duplicate indexes") + " on " + elem, elem);
    }
  }
  // lcs points: validity (in range, strictly increasing, matching) and length
  {
    bool valid = true;
    int px = -1, py = -1;
    for (size_t i = 0; valid && i < lcs.size(); ++i) {
      int x = lcs[i].x(), y = lcs[i].y();
      if (x < a_off || x >= a_off + (int)A.size() || y < b_off || y >= b_off + (int)B.size()) { valid = false; break; }
      if (x <= px || y <= py) { valid = false; break; }
      if (!eq(abuf[x], bbuf[y])) { valid = false; break; }
      px = x; py = y;
    }
    string pts;
    for (size_t i = 0; i < lcs.size(); ++i) pts += "(" + std::to_string(lcs[i].x()) + "," + std::to_string(lcs[i].y()) + ")";
    if (!valid) {
      bad = true;
      rep.fail(sigbase + "mismatch:lcs-invalid-points " + site,
	       "reported common subsequence [" + pts + "] is not a strictly increasing, in-range, matching sequence of points on " + elem, elem);
    } else if ((int)lcs.size() != L) {
      bad = true;
      rep.fail(sigbase + ((int)lcs.size() < L ? "mismatch:lcs-too-short " : "mismatch:lcs-too-long ") + site,
	       "reported common subsequence [" + pts + "] has " + std::to_string(lcs.size()) + " points, LCS length is " + std::to_string(L) + " on " + elem, elem);
    }
  }
  rep.outcomes[bad ? "bad" : ("ok-d" + std::to_string(std::min(expected, 9)))]++;
}

template <typename T>
static vector<T> decode(unsigned long long idx, int len, int k, const char* letters)
{
  vector<T> v(len);
  for (int i = len - 1; i >= 0; --i) { int d = idx % k; idx /= k; v[i] = letters ? (T)letters[d] : (T)d; }
  return v;
}

template <typename T, typename Eq>
static void sweep(int k, int n, const string& pred, int sub, int shard, int nshards, const char* letters, int nmin)
{
  // all sequences of length 0..n
  vector<vector<T> > all;
  for (int len = 0; len <= n; ++len) {
    unsigned long long cnt = 1; for (int i = 0; i < len; ++i) cnt *= k;
    for (unsigned long long i = 0; i < cnt; ++i) all.push_back(decode<T>(i, len, k, letters));
  }
  for (size_t i = 0; i < all.size(); ++i) {
    if ((int)(i % nshards) != shard) continue;
    for (size_t j = 0; j < all.size(); ++j) {
      if ((int)all[i].size() <= nmin && (int)all[j].size() <= nmin) continue; // covered by a smaller bound
      check_pair<T, Eq>(all[i], all[j], pred, sub);
    }
  }
}

template <typename T>
static vector<T> parse(const string& s, bool ints)
{
  vector<T> v;
  for (size_t i = 0; i < s.size(); ++i) v.push_back(ints ? (T)(s[i] - '0') : (T)s[i]);
  return v;
}

int main(int argc, char** argv)
{
  vf::install_guards();
  if (argc >= 6 && string(argv[1]) == "--one") {
    string a = argv[2], b = argv[3], pred = argv[4]; int sub = atoi(argv[5]);
    if (pred == "eq") check_pair<char, default_eq_functor>(parse<char>(a, false), parse<char>(b, false), pred, sub);
    else if (pred == "ci") check_pair<char, ci_eq>(parse<char>(a, false), parse<char>(b, false), pred, sub);
    else check_pair<int, mod2_eq>(parse<int>(a, true), parse<int>(b, true), pred, sub);
    rep.print();
    return 0;
  }
  if (argc < 7) { fprintf(stderr, "usage\n"); return 2; }
  int k = atoi(argv[1]), n = atoi(argv[2]); string pred = argv[3];
  int sub = atoi(argv[4]), shard = atoi(argv[5]), nshards = atoi(argv[6]);
  int nmin = argc > 7 ? atoi(argv[7]) : -1;
  if (pred == "eq") sweep<char, default_eq_functor>(k, n, pred, sub, shard, nshards, LETTERS_EQ, nmin);
  else if (pred == "ci") sweep<char, ci_eq>(k, n, pred, sub, shard, nshards, LETTERS_CI, nmin);
  else sweep<int, mod2_eq>(k, n, pred, sub, shard, nshards, 0, nmin);
  rep.print();
  return 0;
}
