// ThreadSanitizer companion of C32: the same queue code, real pthreads, free running.
// (A cooperative scheduler's hand-offs are happens-before edges that would hide races,
// so unsynchronised accesses are looked for here, outside vsched.)
//   tsan_wq MAXW ROUNDS
#include "abg-workers.h"
#include <cstdio>
#include <cstdlib>
#include <vector>
using namespace abigail::workers;

static std::vector<int> notified;          // written by the notifier only (contract: never concurrently)
struct my_task : public task { int id; int count; my_task(int i) : id(i), count(0) {} virtual void perform() { ++count; } };
struct my_notify : public queue::task_done_notify {
  virtual void operator()(const task_sptr& t) { notified.push_back(static_cast<my_task*>(t.get())->id); }
};

int main(int argc, char** argv)
{
  int maxw = argc > 1 ? atoi(argv[1]) : 16, rounds = argc > 2 ? atoi(argv[2]) : 3;
  long runs = 0, tasks_total = 0; int bad = 0;
  int ws[] = {1, 2, 3, 4, 8, 16};
  int ts[] = {0, 1, 2, 3, 17, 200, 2000};
  for (int r = 0; r < rounds; ++r)
    for (unsigned wi = 0; wi < sizeof ws / sizeof *ws; ++wi)
      for (unsigned ti = 0; ti < sizeof ts / sizeof *ts; ++ti) {
	int W = ws[wi], T = ts[ti];
	if (W > maxw) continue;
	notified.clear();
	my_notify n;
	std::vector<task_sptr> tasks;
	for (int i = 0; i < T; ++i) tasks.push_back(task_sptr(new my_task(i)));
	{
	  queue q(W, n);
	  if (r % 2) q.schedule_tasks(tasks); else for (int i = 0; i < T; ++i) q.schedule_task(tasks[i]);
	  if (r % 3 != 2) q.wait_for_workers_to_complete();
	  if (r % 3 != 2 && (int)q.get_completed_tasks().size() != T) { ++bad; printf("BAD completed=%zu T=%d W=%d\n", q.get_completed_tasks().size(), T, W); }
	}
	for (int i = 0; i < T; ++i) if (static_cast<my_task*>(tasks[i].get())->count != 1) { ++bad; printf("BAD count task %d = %d (W=%d T=%d)\n", i, static_cast<my_task*>(tasks[i].get())->count, W, T); break; }
	if ((int)notified.size() != T) { ++bad; printf("BAD notified=%zu T=%d W=%d\n", notified.size(), T, W); }
	++runs; tasks_total += T;
      }
  printf("{\"runs\":%ld,\"tasks\":%ld,\"bad\":%d}\n", runs, tasks_total, bad);
  return bad ? 1 : 0;
}
