// C32: the real worker queue (src/abg-workers.cc, textually included, unmodified)
// under the controlled scheduler.  Compiled with -include vsched_shim.h.
//   wq_harness explore W T STYLE PB SPUR [MAXSCHED [POSTUNLOCK]]   POSTUNLOCK=1: extra scheduling point after every unlock
//   wq_harness replay  W T STYLE SPUR "c0,c1,..." [POSTUNLOCK]  (prints the event trace)
//   wq_harness walk    W T STYLE SPUR FILE               (binding: replay thread-id paths, print abstract states)
// STYLE: 0 schedule_tasks + wait   1 schedule_task one by one + wait
//        2 destructor only          3 wait twice                 4 schedule after wait (must be refused)
#include "abg-workers.cc"          // found through -I<repo>/src ; priv becomes visible to the harness
#include "../engines/vsched/explore.h"
#include <sstream>
#include <cstring>
#include <csignal>
#include <map>

using namespace abigail::workers;

static int W, T, STYLE;
static int performed[8], notified[8];
static int notify_calls, notifying;
static bool overlap, sched_ok, late_sched_refused;
static std::vector<int> done_order;
static queue::priv* QP = 0;
static std::string last_error;
static bool DUMP = false;

struct my_task : public task {
  int id;
  my_task(int i) : id(i) {}
  virtual void perform() { performed[id]++; vs_note("perform", id); }
};

struct my_notify : public queue::task_done_notify {
  virtual void operator()(const task_sptr& t)
  {
    my_task* mt = dynamic_cast<my_task*>(t.get());
    ++notifying;
    if (notifying > 1) overlap = true;
    vs_yield("notify");
    ++notify_calls;
    if (mt) notified[mt->id]++;
    --notifying;
  }
};

static void adopt_priv(void* arg)
{
  if (QP) return;
  QP = (queue::priv*)arg;
  vs_name_object(&QP->tasks_todo_mutex, "todoMutex");
  vs_name_object(&QP->tasks_done_mutex, "doneMutex");
  vs_name_object(&QP->tasks_todo_cond, "todoCond");
  vs_name_object(&QP->tasks_done_cond, "doneCond");
}
static void create_cb0(void*, void* arg) { adopt_priv(arg); }

static void reset_obs()
{
  memset(performed, 0, sizeof performed); memset(notified, 0, sizeof notified);
  notify_calls = notifying = 0; overlap = false; sched_ok = true; late_sched_refused = true;
  done_order.clear(); QP = 0;
}

static void body()
{
  reset_obs();
  my_notify n;
  std::vector<task_sptr> tasks;
  for (int i = 0; i < T; ++i) tasks.push_back(task_sptr(new my_task(i)));
  {
    queue q(W, n);          // the constructor creates the workers; QP is captured at the first pthread_create
    if (!QP) adopt_priv(q.p_.get());
    if (STYLE == 1) { for (int i = 0; i < T; ++i) sched_ok = q.schedule_task(tasks[i]) && sched_ok; }
    else if (T) sched_ok = q.schedule_tasks(tasks);
    if (STYLE != 2) q.wait_for_workers_to_complete();
    if (STYLE == 3) q.wait_for_workers_to_complete();
    if (STYLE == 4) late_sched_refused = !q.schedule_task(task_sptr(new my_task(7)));
    if (STYLE != 2) {
      std::vector<task_sptr>& d = q.get_completed_tasks();
      for (size_t i = 0; i < d.size(); ++i) done_order.push_back(static_cast<my_task*>(d[i].get())->id);
    }
    if (STYLE == 2) {
      // completed tasks are only readable while the queue lives; with destructor-only use
      // the drain happens in ~queue, so observe through the notifier counters instead
    }
    QP = STYLE == 2 ? QP : 0;
  }
  QP = 0;
}

static uint64_t shared_hash()
{
  uint64_t h = 1469598103934665603ULL;
#define MIX(v) h = (h ^ (uint64_t)(v)) * 1099511628211ULL
  for (int i = 0; i < T; ++i) { MIX(performed[i]); MIX(notified[i] + 10); }
  MIX(notify_calls); MIX(notifying + 100); MIX(overlap); MIX(sched_ok); MIX(late_sched_refused);
  if (QP) {
    MIX(QP->bring_workers_down + 50);
    std::queue<task_sptr> q = QP->tasks_todo;
    while (!q.empty()) { MIX(static_cast<my_task*>(q.front().get())->id + 200); q.pop(); }
    MIX(777);
    for (size_t i = 0; i < QP->tasks_done.size(); ++i) MIX(static_cast<my_task*>(QP->tasks_done[i].get())->id + 300);
    MIX(QP->workers.size() + 400);
  } else MIX(999);
  return h;
}

static std::string final_obs()
{
  std::ostringstream o;
  for (size_t i = 0; i < done_order.size(); ++i) o << done_order[i] << " ";
  o << "| nc=" << notify_calls;
  return o.str();
}

static std::string abstract_state();
static std::string check(const vsx::Execution& x)
{
  std::ostringstream e;
  if (DUMP) {
    // one line per decision of this execution: kind, chosen thread, spurious flag (snapshots were printed as they occurred)
    printf("X");
    for (size_t i = 0; i < x.points.size(); ++i) {
      const vsx::Point& p = x.points[i];
      printf(" %s%d", p.kind == VS_WAITER ? "w" : (p.opts[p.chosen].spurious ? "s" : "t"), p.opts[p.chosen].thread);
    }
    printf("\n");
  }
  if (W == 0) {
    if (T && sched_ok) e << "schedule succeeded without workers; ";
    for (int i = 0; i < T; ++i) if (performed[i]) e << "task " << i << " performed without workers; ";
    return e.str();
  }
  if (!sched_ok) e << "schedule_task(s) returned false; ";
  for (int i = 0; i < T; ++i) {
    if (performed[i] != 1) e << "task " << i << " performed " << performed[i] << " times; ";
    if (notified[i] != 1) e << "notifier ran " << notified[i] << " times for task " << i << "; ";
  }
  if (notify_calls != T) e << "notifier calls " << notify_calls << " != " << T << "; ";
  if (overlap) e << "notifier ran concurrently with itself; ";
  if (STYLE != 2) {
    std::vector<int> c(T, 0);
    if ((int)done_order.size() != T) e << "completed tasks: " << done_order.size() << " entries for " << T << " tasks; ";
    for (size_t i = 0; i < done_order.size(); ++i) if (done_order[i] >= 0 && done_order[i] < T) c[done_order[i]]++;
    for (int i = 0; i < T; ++i) if (c[i] != 1 && (int)done_order.size() == T) e << "task " << i << " appears " << c[i] << " times among completed tasks; ";
  }
  if (STYLE == 4 && !late_sched_refused) e << "a task scheduled after the workers were brought down was accepted (it can never run); ";
  return e.str();
}

static vsx::Explorer* EX = 0;
static int n_violations = 0;
static std::string jesc(const std::string& s)
{ std::string o; for (size_t i = 0; i < s.size(); ++i) { char c = s[i]; if (c == '"' || c == '\\') { o += '\\'; o += c; } else if (c == '\n') o += "\\n"; else o += c; } return o; }

static std::vector<std::string> violations;
static void on_violation(const std::string& kind, const std::string& what, const vsx::Execution& x)
{
  ++n_violations;
  if (violations.size() < 3)
    violations.push_back("{\"kind\":\"" + kind + "\",\"what\":\"" + jesc(what) + "\",\"choices\":\"" + vsx::Explorer::choices_str(x) + "\"}");
}

static void print_summary(bool completed)
{
  printf("{\"W\":%d,\"T\":%d,\"style\":%d,\"preempt_bound\":%d,\"spurious\":%d,\"schedules\":%llu,\"choice_points\":%llu,\"states\":%zu,\"pruned\":%llu,\"steps\":%llu,\"finals\":%zu,\"completed\":%s,\"nviol\":%d,\"violations\":[",
	 W, T, STYLE, EX->preempt_bound, EX->spurious_budget, EX->stats.schedules, EX->stats.choice_points, EX->stats.states.size(),
	 EX->stats.pruned, EX->stats.steps, EX->stats.finals.size(), completed ? "true" : "false", n_violations);
  for (size_t i = 0; i < violations.size(); ++i) printf("%s%s", i ? "," : "", violations[i].c_str());
  printf("]}\n");
  fflush(stdout);
}

static void fatal_handler(int status, const char* detail)
{
  // deadlock / livelock / scheduler misuse: the execution cannot be unwound; report and stop this configuration
  const char* kind = status == VS_DEADLOCK ? "deadlock" : status == VS_STEP_LIMIT ? "livelock" : "protocol";
  on_violation(kind, detail, EX->cur);
  if (EX->record_events) for (size_t i = 0; i < EX->cur.events.size(); ++i) printf("EVENT %s\n", EX->cur.events[i].c_str());
  print_summary(false);
  _exit(0);
}

static void on_abort(int)
{
  on_violation("abort", "assertion failure / abort inside the queue code", EX->cur);
  print_summary(false);
  _exit(0);
}

static std::vector<int> parse_choices(const std::string& s)
{ std::vector<int> v; std::istringstream in(s); std::string t; while (std::getline(in, t, ',')) if (!t.empty()) v.push_back(atoi(t.c_str())); return v; }

// ---- abstraction of the implementation state for the TLA+ binding
static std::string abstract_state()
{
  std::ostringstream o;
  o << "pend=";
  for (int t = 0; t < vs_num_threads(); ++t) o << (t ? ";" : "") << vs_pending(t);
  o << " todoOwner=" << (QP ? vs_mutex_owner(&QP->tasks_todo_mutex) : -1) << " doneOwner=" << (QP ? vs_mutex_owner(&QP->tasks_done_mutex) : -1);
  int w[8]; int n;
  o << " todoWaiters="; n = QP ? vs_cond_waiters(&QP->tasks_todo_cond, w, 8) : 0; for (int i = 0; i < n; ++i) o << (i ? "," : "") << w[i];
  o << " doneWaiters="; n = QP ? vs_cond_waiters(&QP->tasks_done_cond, w, 8) : 0; for (int i = 0; i < n; ++i) o << (i ? "," : "") << w[i];
  o << " todo=";
  if (QP) { std::queue<task_sptr> q = QP->tasks_todo; bool f = true; while (!q.empty()) { o << (f ? "" : ",") << static_cast<my_task*>(q.front().get())->id + 1; f = false; q.pop(); } }
  o << " done=";
  if (QP) for (size_t i = 0; i < QP->tasks_done.size(); ++i) o << (i ? "," : "") << static_cast<my_task*>(QP->tasks_done[i].get())->id + 1;
  o << " down=" << (QP ? (int)QP->bring_workers_down : -1);
  o << " performed="; for (int i = 0; i < T; ++i) o << (i ? "," : "") << performed[i];
  o << " notifying=" << notifying << " notifyCalls=" << notify_calls;
  return o.str();
}

// walk mode: the oracle follows a given sequence of thread ids (one per step)
static std::vector<int> walk_path; static size_t walk_pos; static bool walk_ok; static std::string walk_err;
static std::vector<std::string> walk_states;
static int walk_choose(void*, int kind, const vs_option* opts, int n, int)
{
  if (kind == VS_WAITER) {
    // the path encodes the woken waiter as the next entry, negative-coded: -(thread+1)
    if (walk_pos < walk_path.size() && walk_path[walk_pos] < 0) {
      int want = -walk_path[walk_pos] - 1; ++walk_pos;
      for (int i = 0; i < n; ++i) if (opts[i].thread == want) return i;
      walk_ok = false; walk_err = "waiter not available"; return 0;
    }
    return 0;
  }
  walk_states.push_back(abstract_state());
  if (walk_pos >= walk_path.size()) {
    // path exhausted: finish the execution with the default schedule (not part of the comparison)
    return 0;
  }
  int want = walk_path[walk_pos]; bool spur = false;
  if (want >= 100) { spur = true; want -= 100; }
  ++walk_pos;
  for (int i = 0; i < n; ++i) if (opts[i].thread == want && (opts[i].spurious != 0) == spur) return i;
  walk_ok = false; walk_err = "thread " + std::to_string(want) + " not enabled at step " + std::to_string(walk_pos - 1);
  walk_pos = walk_path.size();
  return 0;
}
static uint64_t hash0(void*) { return shared_hash(); }
static void body_cb(void*) { body(); }

int main(int argc, char** argv)
{
  if (argc < 6) { fprintf(stderr, "usage\n"); return 2; }
  std::string mode = argv[1];
  W = atoi(argv[2]); T = atoi(argv[3]); STYLE = atoi(argv[4]);
  vsx::Explorer ex; EX = &ex;
  ex.body = body; ex.check = check; ex.shared_hash = shared_hash; ex.final_observation = final_obs; ex.on_violation = on_violation;
  vs_fatal_handler = fatal_handler;
  ex.on_thread_create = adopt_priv;
  ex.on_choice_point = [](int kind) { if (DUMP && kind == VS_THREAD) printf("S %s\n", abstract_state().c_str()); };
  signal(SIGABRT, on_abort);
  if (mode == "dump") { DUMP = true; mode = "explore"; }
  if (mode == "explore") {
    ex.preempt_bound = atoi(argv[5]); ex.spurious_budget = argc > 6 ? atoi(argv[6]) : 0;
    ex.max_schedules = argc > 7 ? strtoull(argv[7], 0, 10) : 0;
    ex.yield_after_unlock = argc > 8 ? atoi(argv[8]) : 0;
    // determinism gate: the default schedule run twice gives identical event traces
    ex.record_events = true;
    ex.run(std::vector<int>(), std::vector<std::pair<int, int> >()); std::vector<std::string> e1 = ex.cur.events; std::string c1 = vsx::Explorer::choices_str(ex.cur);
    ex.run(std::vector<int>(), std::vector<std::pair<int, int> >());
    if (e1 != ex.cur.events || c1 != vsx::Explorer::choices_str(ex.cur)) { printf("{\"error\":\"nondeterministic replay of the default schedule\"}\n"); return 3; }
    ex.record_events = false; ex.stats = vsx::Stats();
    if (DUMP) printf("BEGIN\n");
    ex.explore(std::vector<int>(), std::vector<std::pair<int, int> >());
    print_summary(!ex.stats.capped);
    return 0;
  }
  if (mode == "replay") {
    ex.spurious_budget = atoi(argv[5]);
    ex.yield_after_unlock = argc > 7 ? atoi(argv[7]) : 0;
    ex.record_events = true;
    std::vector<int> c = parse_choices(argc > 6 ? argv[6] : "");
    ex.run(c, std::vector<std::pair<int, int> >());
    for (size_t i = 0; i < ex.cur.events.size(); ++i) printf("EVENT %s\n", ex.cur.events[i].c_str());
    std::string v = check(ex.cur);
    if (!v.empty()) on_violation("oracle", v, ex.cur);
    printf("FINAL %s\n", final_obs().c_str());
    print_summary(true);
    return 0;
  }
  if (mode == "walk") {
    // FILE: one path per line: space separated thread ids (>=100: spurious wake of id-100; negative: woken waiter)
    int spur = atoi(argv[5]);
    FILE* f = fopen(argv[6], "r"); if (!f) return 2;
    char* line = 0; size_t cap = 0; ssize_t len; long idx = 0;
    while ((len = getline(&line, &cap, f)) > 0) {
      walk_path.clear(); walk_pos = 0; walk_ok = true; walk_err = ""; walk_states.clear();
      std::istringstream in(line); int v; while (in >> v) walk_path.push_back(v);
      vs_config c; memset(&c, 0, sizeof c);
      c.choose = walk_choose; c.shared_hash = hash0; c.on_thread_create = create_cb0; c.spurious_budget = spur; c.max_steps = 20000; c.nproc = 1;
      size_t plen = walk_path.size();
      // count thread-choice steps only
      vs_run(&c, body_cb, 0);
      // state reached after the whole path = the state seen at thread-choice number (#thread entries in path)
      size_t nthread = 0; for (size_t i = 0; i < plen; ++i) if (walk_path[i] >= 0) ++nthread;
      printf("PATH %ld %s %s | %s\n", idx++, walk_ok ? "ok" : "FAIL", walk_ok ? "" : walk_err.c_str(),
	     nthread < walk_states.size() ? walk_states[nthread].c_str() : "END");
    }
    fclose(f);
    return 0;
  }
  return 2;
}
