/* LD_PRELOAD allocator with a selectable, deterministic placement policy (C14).
 *
 * VF_ALLOC_MODE = up      bump allocation, ascending addresses
 *                 down    bump allocation, descending addresses (later objects get lower addresses)
 *                 stripe  allocations alternate between two arenas (address order != allocation order)
 *                 pad     ascending, every block followed by a size-dependent gap
 * VF_ALLOC_BASE = hex address hint of the arena (moves every heap pointer, like ASLR does)
 * free() never recycles, so addresses are never reused inside a run.  Thread-safe (atomic bump). */
#define _GNU_SOURCE
#include <errno.h>
#include <fcntl.h>
#include <stdatomic.h>
#include <stddef.h>
#include <stdint.h>
#include <stdlib.h>
#include <string.h>
#include <sys/mman.h>
#include <unistd.h>

#define ARENA ((size_t)6 << 30)
static _Atomic(uintptr_t) lo, hi, lo2;
static uintptr_t base, top;
static int mode = -1;
static _Atomic(unsigned long) counter;

static void init(void) {
  const char* m = getenv("VF_ALLOC_MODE");
  const char* b = getenv("VF_ALLOC_BASE");
  void* hint = b ? (void*)strtoull(b, 0, 16) : 0;
  void* p = mmap(hint, ARENA, PROT_READ | PROT_WRITE, MAP_PRIVATE | MAP_ANONYMOUS | MAP_NORESERVE | (hint ? MAP_FIXED_NOREPLACE : 0), -1, 0);
  if (p == MAP_FAILED) p = mmap(0, ARENA, PROT_READ | PROT_WRITE, MAP_PRIVATE | MAP_ANONYMOUS | MAP_NORESERVE, -1, 0);
  if (p == MAP_FAILED) _exit(97);
  base = (uintptr_t)p;
  top = base + ARENA;
  atomic_store(&lo, base);
  atomic_store(&lo2, base + ARENA / 2);
  atomic_store(&hi, top);
  mode = !m ? 0 : !strcmp(m, "down") ? 1 : !strcmp(m, "stripe") ? 2 : !strcmp(m, "pad") ? 3 : 0;
}

static void* take(size_t size, size_t align) {
  static _Atomic int once;
  if (mode < 0) {
    int exp = 0;
    if (atomic_compare_exchange_strong(&once, &exp, 1)) { init(); atomic_store(&once, 2); }
    else while (atomic_load(&once) != 2) ;
  }
  if (align < 16) align = 16;
  size_t need = size + sizeof(size_t) + align;   /* header holds the usable size */
  need = (need + 15) & ~(size_t)15;
  uintptr_t start;
  int m = mode;
  if (m == 2) m = (atomic_fetch_add(&counter, 1) & 1) ? 4 : 0;
  if (m == 1) {
    start = atomic_fetch_sub(&hi, need) - need;
    if (start < atomic_load(&lo2) + need) _exit(96);
  } else if (m == 4) {
    start = atomic_fetch_add(&lo2, need);
    if (start + need > atomic_load(&hi)) _exit(96);
  } else {
    size_t gap = (mode == 3) ? ((size * 7) & 0xf0) : 0;
    start = atomic_fetch_add(&lo, need + gap);
    if (start + need > base + ARENA / 2) _exit(96);
  }
  uintptr_t user = (start + sizeof(size_t) + align - 1) & ~(uintptr_t)(align - 1);
  ((size_t*)user)[-1] = size;
  return (void*)user;
}

__attribute__((destructor)) static void report(void) {
  const char* f = getenv("VF_ALLOC_REPORT");
  if (!f || mode < 0) return;
  char buf[128];
  int n = 0;
  unsigned long used = (unsigned long)(atomic_load(&lo) - base) + (unsigned long)(top - atomic_load(&hi)) + (unsigned long)(atomic_load(&lo2) - base - ARENA / 2);
  /* decimal without stdio */
  char tmp[32]; int k = 0; do { tmp[k++] = '0' + used % 10; used /= 10; } while (used);
  while (k) buf[n++] = tmp[--k];
  buf[n++] = '\n';
  int fd = open(f, 01 | 0100 | 01000, 0644);
  if (fd >= 0) { if (write(fd, buf, n)) {} close(fd); }
}

void* malloc(size_t n) { return take(n ? n : 1, 16); }
void free(void* p) { (void)p; }
void* calloc(size_t a, size_t b) {
  if (b && a > (size_t)-1 / b) { errno = ENOMEM; return 0; }
  void* p = take(a * b ? a * b : 1, 16);   /* fresh anonymous memory is zero */
  return p;
}
void* realloc(void* p, size_t n) {
  if (!p) return malloc(n);
  size_t old = ((size_t*)p)[-1];
  if (n <= old) { return p; }
  void* q = take(n, 16);
  memcpy(q, p, old);
  return q;
}
int posix_memalign(void** out, size_t align, size_t n) { *out = take(n ? n : 1, align); return 0; }
void* aligned_alloc(size_t align, size_t n) { return take(n ? n : 1, align); }
void* memalign(size_t align, size_t n) { return take(n ? n : 1, align); }
void* valloc(size_t n) { return take(n ? n : 1, 4096); }
size_t malloc_usable_size(void* p) { return p ? ((size_t*)p)[-1] : 0; }
