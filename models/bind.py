"""Two-way conformance between models/WorkQ.tla (as explored by TLC) and the real
queue code running under vsched (harness/wq_harness).

  (a) implementation [= model : every execution produced by the explorer is walked
      through TLC's state graph; each step must be an edge of the acting process and
      the abstraction of the implementation snapshot must equal the model state.
  (b) model [= implementation : for EVERY edge (s, a, s') of the graph, the BFS-tree
      path to s followed by a is replayed on the real code, which must accept it and
      reach a snapshot whose abstraction equals s'.
"""
import collections
import os
import re
import subprocess
import sys

LABEL_PENDING = {
    "create": "create", "sLock": "lock todoMutex", "sUnlock": "unlock todoMutex", "sSignal": "signal todoCond",
    "dLock": "lock todoMutex", "dWait": "wait doneCond", "dWake": "wake doneCond", "dUnlock": "unlock todoMutex",
    "dBcast": "broadcast todoCond", "join": "join", "Done": "",
    "wStart": "start", "wLock": "lock todoMutex", "wWait": "wait todoCond", "wWake": "wake todoCond",
    "wUnlock": "unlock todoMutex", "wDLock": "lock doneMutex", "wNotify": "yield notify", "wDUnlock": "unlock doneMutex",
    "wDSignal": "signal doneCond", "wFLock": "lock todoMutex", "wFUnlock": "unlock todoMutex",
}


# ------------------------------------------------------------------ TLA value parser
def parse_value(s, i=0):
    s_len = len(s)
    while i < s_len and s[i] == " ":
        i += 1
    if s.startswith("<<", i):
        i += 2
        out = []
        while True:
            while s[i] == " ":
                i += 1
            if s.startswith(">>", i):
                return out, i + 2
            v, i = parse_value(s, i)
            out.append(v)
            while s[i] == " ":
                i += 1
            if s[i] == ",":
                i += 1
    if s[i] == "{":
        i += 1
        out = []
        while True:
            while s[i] == " ":
                i += 1
            if s[i] == "}":
                return frozenset(out), i + 1
            v, i = parse_value(s, i)
            out.append(v)
            while s[i] == " ":
                i += 1
            if s[i] == ",":
                i += 1
    if s[i] == '"':
        j = s.index('"', i + 1)
        return s[i + 1:j], j + 1
    m = re.compile(r"-?\d+|TRUE|FALSE").match(s, i)
    if not m:
        raise ValueError("cannot parse TLA value at %r" % s[i:i + 40])
    t = m.group(0)
    return (True if t == "TRUE" else False if t == "FALSE" else int(t)), m.end()


def parse_state(label):
    st = {}
    for line in label.split("\\n"):
        line = line.replace('\\"', '"').replace("\\\\", "\\")
        m = re.match(r"\s*/\\ (\w+) = (.*)$", line)
        if not m:
            raise ValueError("bad state line %r" % line)
        st[m.group(1)] = parse_value(m.group(2))[0]
    return st


def load_graph(dot):
    nodes, edges, init = {}, [], None
    node_re = re.compile(r'^(-?\d+) \[label="((?:[^"\\]|\\.)*)"')
    edge_re = re.compile(r'^(-?\d+) -> (-?\d+) \[label="([^"]*)"')
    with open(dot) as f:
        for line in f:
            m = edge_re.match(line)
            if m:
                edges.append((m.group(1), m.group(2), m.group(3)))
                continue
            m = node_re.match(line)
            if m:
                if m.group(1) not in nodes:
                    nodes[m.group(1)] = parse_state(m.group(2))
                    if "style = filled" in line and init is None:
                        init = m.group(1)
    return nodes, edges, init


# ------------------------------------------------------------------ abstraction of implementation snapshots
def parse_snapshot(text):
    d = {}
    for m in re.finditer(r"(\w+)=(.*?)(?= \w+=|$)", text):
        d[m.group(1)] = m.group(2)
    return d


def ints(s):
    return [int(x) for x in s.split(",") if x != ""]


def project_model(st, W, T):
    """Model state -> comparable tuple."""
    pend = []
    for p in range(1, W + 2):
        lab = st["pc"][p - 1]
        if p > 1 and lab == "wStart" and p not in st["created"]:
            pend.append(None)         # thread does not exist yet
            continue
        t = LABEL_PENDING[lab]
        if lab == "join":
            t = "join T%d" % st["k"]
        if lab in ("dWake", "wWake"):
            t += "(signalled)" if p in st["woken"] else "(waiting)"
        pend.append(t)
    return (tuple(pend), st["todoMutex"], st["doneMutex"], tuple(sorted(st["todoWaiters"])), tuple(sorted(st["doneWaiters"])),
            tuple(st["todo"]), tuple(st["done"]), bool(st["down"]), tuple(st["performed"]), st["notifying"], st["notifyCalls"])


def project_impl(text, W, T):
    if text.strip() == "END":
        return "END"
    d = parse_snapshot(text)
    pend = d["pend"].split(";")
    pend = [re.sub(r"\b[mc]\d+\b", "?", x) for x in pend] + [None] * (W + 1 - len(pend))
    return (tuple(pend), int(d["todoOwner"]) + 1, int(d["doneOwner"]) + 1, tuple(x + 1 for x in ints(d["todoWaiters"])),
            tuple(x + 1 for x in ints(d["doneWaiters"])), tuple(ints(d["todo"])), tuple(ints(d["done"])), d["down"] == "1",
            tuple(ints(d["performed"])), int(d["notifying"]), int(d["notifyCalls"]))


def same(pm, pi):
    if pi == "END":
        return all(x == "" for x in pm[0])
    if pm[1:] != pi[1:]:
        return False
    for a, b in zip(pm[0], pi[0]):
        if a == b:
            continue
        if a is None or b is None:
            return False
        if "?" in b and a.split(" ")[0] == b.split(" ")[0]:
            continue   # object used before the harness could name it
        return False
    return True


def edge_proc(label):
    m = re.match(r"(\w+)(?:\((\d+)\))?$", label)
    return m.group(1), (int(m.group(2)) if m.group(2) else 1)


def step_entries(s, s2, label):
    """Path entries (walk-mode encoding) for model edge s --label--> s2."""
    name, p = edge_proc(label)
    tid = p - 1
    ent = [tid + 100 if name.endswith("Spur") else tid]
    if name in ("sSignal", "wDSignal"):
        waiters = s["todoWaiters"] if name == "sSignal" else s["doneWaiters"]
        if len(waiters) > 1:
            w = list(s2["woken"] - s["woken"])
            ent.append(-(w[0] - 1) - 1)
    return ent


def run_tlc(workdir, W, T, SPUR, dump=True, workers=8, timeout=1800, props=True):
    os.makedirs(workdir, exist_ok=True)
    here = os.path.dirname(os.path.abspath(__file__))
    with open(os.path.join(here, "WorkQ.tla")) as f:
        spec = f.read()
    with open(os.path.join(workdir, "WorkQ.tla"), "w") as f:
        f.write(spec)
    with open(os.path.join(workdir, "WorkQ.cfg"), "w") as f:
        f.write("SPECIFICATION Spec\nCONSTANTS W = %d\n T = %d\n SPUR = %d\n" % (W, T, SPUR))
        f.write("INVARIANTS PerformedAtMostOnce NotifierExclusive DoneNoDup DoneWerePerformed FinalOK NoDeadlock\n")
        if props:
            f.write("PROPERTIES Termination\n")
        f.write("CHECK_DEADLOCK FALSE\n")
    cmd = ["tlc", "-workers", str(workers), "-metadir", os.path.join(workdir, "meta")]
    dot = os.path.join(workdir, "g.dot")
    if dump:
        cmd += ["-dump", "dot,actionlabels", dot]
    cmd += ["WorkQ.tla"]
    env = dict(os.environ, JAVA_TOOL_OPTIONS="-Xmx8g")
    try:
        r = subprocess.run(cmd, cwd=workdir, stdout=subprocess.PIPE, stderr=subprocess.STDOUT, timeout=timeout, env=env)
        out = r.stdout.decode(errors="replace")
    except subprocess.TimeoutExpired as e:
        return {"ok": False, "timeout": True, "out": (e.stdout or b"").decode(errors="replace")[-2000:]}
    res = {"ok": "Model checking completed. No error has been found." in out, "timeout": False, "out": out[-3000:], "dot": dot}
    m = re.search(r"(\d[\d,]*) states generated, (\d[\d,]*) distinct states found", out)
    if m:
        res["generated"] = int(m.group(1).replace(",", ""))
        res["distinct"] = int(m.group(2).replace(",", ""))
    m = re.search(r"depth of the complete state graph search is (\d+)", out)
    if m:
        res["depth"] = int(m.group(1))
    res["violated"] = re.findall(r"Invariant (\w+) is violated|Temporal properties were violated", out)
    return res


def bind(harness, workdir, W, T, SPUR, preempt_for_traces=1):
    """Returns dict with counts and a list of problems (empty = bound)."""
    tl = run_tlc(workdir, W, T, SPUR, dump=True)
    problems = []
    if not tl["ok"]:
        return {"bound": False, "problems": ["TLC did not complete cleanly: " + tl["out"][-800:]], "tlc": tl}
    nodes, edges, init = load_graph(tl["dot"])
    adj = collections.defaultdict(list)
    for a, b, l in edges:
        adj[a].append((b, l))
    # BFS tree
    path = {init: []}
    order = [init]
    dq = collections.deque([init])
    while dq:
        s = dq.popleft()
        for b, l in adj[s]:
            if b not in path and b != s:
                path[b] = path[s] + step_entries(nodes[s], nodes[b], l)
                order.append(b)
                dq.append(b)
    # ---- (b) every edge replayed on the implementation
    real_edges = [(a, b, l) for a, b, l in edges if a != b or not all(x == "Done" for x in nodes[a]["pc"])]
    pf = os.path.join(workdir, "paths.txt")
    with open(pf, "w") as f:
        for a, b, l in real_edges:
            f.write(" ".join(str(x) for x in path[a] + step_entries(nodes[a], nodes[b], l)) + "\n")
    r = subprocess.run([harness, "walk", str(W), str(T), "0", str(SPUR), pf], stdout=subprocess.PIPE, stderr=subprocess.PIPE, timeout=1800)
    lines = [x for x in r.stdout.decode().splitlines() if x.startswith("PATH ")]
    if len(lines) != len(real_edges):
        problems.append("walk produced %d results for %d edges (rc=%s, stderr=%s)" % (len(lines), len(real_edges), r.returncode, r.stderr.decode()[-300:]))
    edges_ok = 0
    for (a, b, l), line in zip(real_edges, lines):
        m = re.match(r"PATH (\d+) (ok|FAIL) (.*?) \| (.*)$", line)
        if not m or m.group(2) != "ok":
            if len(problems) < 5:
                problems.append("model edge %s not accepted by the implementation: %s" % (l, line[:200]))
            continue
        if not same(project_model(nodes[b], W, T), project_impl(m.group(4), W, T)):
            if len(problems) < 5:
                problems.append("after model edge %s: model %s != implementation %s" % (l, project_model(nodes[b], W, T), project_impl(m.group(4), W, T)))
            continue
        edges_ok += 1
    # ---- (a) every explored implementation trace walked through the graph
    r = subprocess.run([harness, "dump", str(W), str(T), "0", str(preempt_for_traces), str(SPUR)], stdout=subprocess.PIPE, stderr=subprocess.PIPE, timeout=1800)
    out = r.stdout.decode().splitlines()
    try:
        out = out[out.index("BEGIN") + 1:]
    except ValueError:
        problems.append("dump mode produced no BEGIN marker")
        out = []
    traces_ok = traces = steps = 0
    snaps = []
    for line in out:
        if line.startswith("S "):
            snaps.append(line[2:])
        elif line.startswith("X"):
            traces += 1
            toks = line.split()[1:]
            s = init
            ok = True
            si = 0
            i = 0
            while i < len(toks):
                tk = toks[i]
                # snapshot before this thread decision must equal current model state
                if si < len(snaps) and not same(project_model(nodes[s], W, T), project_impl(snaps[si], W, T)):
                    ok = False
                    if len(problems) < 5:
                        problems.append("trace %d step %d: model %s != implementation %s" % (traces, si, project_model(nodes[s], W, T), project_impl(snaps[si], W, T)))
                    break
                si += 1
                tid = int(tk[1:])
                spur = tk[0] == "s"
                waiter = None
                if i + 1 < len(toks) and toks[i + 1][0] == "w":
                    waiter = int(toks[i + 1][1:])
                    i += 1
                i += 1
                nxt = None
                for b, l in adj[s]:
                    name, p = edge_proc(l)
                    if p - 1 != tid or name.endswith("Spur") != spur or b == s and all(x == "Done" for x in nodes[s]["pc"]):
                        continue
                    if waiter is not None and (waiter + 1) not in (nodes[b]["woken"] - nodes[s]["woken"]):
                        continue
                    nxt = b
                    break
                if nxt is None:
                    ok = False
                    if len(problems) < 5:
                        problems.append("trace %d: implementation step by thread %d%s has no edge in the model from %s" % (traces, tid, " (spurious)" if spur else "", project_model(nodes[s], W, T)))
                    break
                s = nxt
                steps += 1
            if ok and not all(x == "Done" for x in nodes[s]["pc"]):
                ok = False
                if len(problems) < 5:
                    problems.append("trace %d ends in a non-final model state" % traces)
            traces_ok += ok
            snaps = []
    return {"bound": not problems and edges_ok == len(real_edges) and traces_ok == traces and traces > 0,
            "problems": problems, "model_states": len(nodes), "model_edges": len(real_edges), "edges_replayed_ok": edges_ok,
            "impl_traces": traces, "impl_traces_ok": traces_ok, "impl_steps_walked": steps, "tlc": {k: v for k, v in tl.items() if k not in ("out",)}}


if __name__ == "__main__":
    import json
    h, wd, W, T, S = sys.argv[1], sys.argv[2], int(sys.argv[3]), int(sys.argv[4]), int(sys.argv[5])
    print(json.dumps(bind(h, wd, W, T, S), indent=1, default=str))
