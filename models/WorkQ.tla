----------------------------- MODULE WorkQ -----------------------------
(* Model of libabigail's worker queue (src/abg-workers.cc):
   queue::priv::{create_workers, schedule_task(s), do_bring_workers_down} and
   worker::wait_to_execute_a_task, with POSIX mutex / condition-variable semantics
   (signal wakes ONE arbitrary waiter, optional spurious wake-ups).

   One action = one intercepted pthread call (a vsched commit) together with the
   thread-local code that follows it up to the next intercepted call.  Processes
   are numbered like vsched threads + 1: process 1 = the thread that owns the
   queue ("main"), process w+1 = worker thread w.  All variables are integers,
   strings, booleans, sets and sequences so that TLC's state dump is trivial to
   parse for the conformance check (models/bind.py).                          *)
EXTENDS Naturals, Sequences, FiniteSets

CONSTANTS W,      \* number of workers
          T,      \* number of tasks
          SPUR    \* number of spurious wake-ups that may be injected

NoOwner == 0
Procs   == 1..(W + 1)
Workers == 2..(W + 1)
Tasks   == 1..T

VARIABLES pc,          \* sequence: label per process
          todoMutex,   \* owner process or NoOwner
          doneMutex,
          todoWaiters, \* processes blocked in cond_wait(tasks_todo_cond) and not yet woken
          doneWaiters, \* same for tasks_done_cond
          woken,       \* processes that were signalled and must re-acquire their mutex
          todo, done,  \* the two task containers (sequences of task ids)
          down,        \* bring_workers_down
          performed,   \* sequence: how many times each task was performed
          notifying,   \* number of notifier invocations in progress
          notifyCalls, \* completed notifier invocations
          created, finished,
          k,           \* main: next task to schedule / next worker to create / join
          tsk,         \* sequence: task held by each process (0 = none)
          drop,        \* sequence: worker-local copy of bring_workers_down
          spurLeft

vars == <<pc, todoMutex, doneMutex, todoWaiters, doneWaiters, woken, todo, done, down,
          performed, notifying, notifyCalls, created, finished, k, tsk, drop, spurLeft>>

Init ==
  /\ pc = [p \in Procs |-> IF p = 1 THEN (IF W > 0 THEN "create" ELSE "Done") ELSE "wStart"]
  /\ todoMutex = NoOwner /\ doneMutex = NoOwner
  /\ todoWaiters = {} /\ doneWaiters = {} /\ woken = {}
  /\ todo = <<>> /\ done = <<>> /\ down = FALSE
  /\ performed = [x \in Tasks |-> 0]
  /\ notifying = 0 /\ notifyCalls = 0
  /\ created = {} /\ finished = {}
  /\ k = 1
  /\ tsk = [p \in Procs |-> 0]
  /\ drop = [p \in Procs |-> FALSE]
  /\ spurLeft = SPUR

Set(p, l) == pc' = [pc EXCEPT ![p] = l]

\* ------------------------------------------------------------ main
\* pthread_create, once per worker (queue::priv::create_workers)
create ==
  /\ pc[1] = "create"
  /\ created' = created \cup {k + 1}
  /\ IF k < W THEN /\ k' = k + 1 /\ Set(1, "create")
               ELSE /\ k' = 1 /\ Set(1, IF T > 0 THEN "sLock" ELSE "dLock")
  /\ UNCHANGED <<todoMutex, doneMutex, todoWaiters, doneWaiters, woken, todo, done, down, performed,
                 notifying, notifyCalls, finished, tsk, drop, spurLeft>>

\* schedule_task: lock, push
sLock ==
  /\ pc[1] = "sLock" /\ todoMutex = NoOwner
  /\ todoMutex' = 1 /\ todo' = Append(todo, k) /\ Set(1, "sUnlock")
  /\ UNCHANGED <<doneMutex, todoWaiters, doneWaiters, woken, done, down, performed, notifying, notifyCalls,
                 created, finished, k, tsk, drop, spurLeft>>

sUnlock ==
  /\ pc[1] = "sUnlock"
  /\ todoMutex' = NoOwner /\ Set(1, "sSignal")
  /\ UNCHANGED <<doneMutex, todoWaiters, doneWaiters, woken, todo, done, down, performed, notifying, notifyCalls,
                 created, finished, k, tsk, drop, spurLeft>>

\* pthread_cond_signal(tasks_todo_cond): wakes one arbitrary waiter, if any
sSignal ==
  /\ pc[1] = "sSignal"
  /\ IF todoWaiters = {} THEN UNCHANGED <<todoWaiters, woken>>
     ELSE \E w \in todoWaiters : /\ todoWaiters' = todoWaiters \ {w} /\ woken' = woken \cup {w}
  /\ IF k < T THEN /\ k' = k + 1 /\ Set(1, "sLock")
               ELSE /\ k' = 1 /\ Set(1, "dLock")
  /\ UNCHANGED <<todoMutex, doneMutex, doneWaiters, todo, done, down, performed, notifying, notifyCalls,
                 created, finished, tsk, drop, spurLeft>>

\* do_bring_workers_down: after (re)acquiring the todo mutex, either wait for the queue to drain or set the flag
AfterDrainCheck ==
  IF Len(todo) > 0 THEN /\ Set(1, "dWait") /\ UNCHANGED down
                   ELSE /\ Set(1, "dUnlock") /\ down' = TRUE

dLock ==
  /\ pc[1] = "dLock" /\ todoMutex = NoOwner
  /\ todoMutex' = 1
  /\ AfterDrainCheck
  /\ UNCHANGED <<doneMutex, todoWaiters, doneWaiters, woken, todo, done, performed, notifying, notifyCalls,
                 created, finished, k, tsk, drop, spurLeft>>

\* pthread_cond_wait(tasks_done_cond, tasks_todo_mutex): release + enqueue
dWait ==
  /\ pc[1] = "dWait"
  /\ todoMutex' = NoOwner /\ doneWaiters' = doneWaiters \cup {1} /\ Set(1, "dWake")
  /\ UNCHANGED <<doneMutex, todoWaiters, woken, todo, done, down, performed, notifying, notifyCalls,
                 created, finished, k, tsk, drop, spurLeft>>

dWake ==
  /\ pc[1] = "dWake" /\ 1 \in woken /\ todoMutex = NoOwner
  /\ woken' = woken \ {1} /\ todoMutex' = 1
  /\ AfterDrainCheck
  /\ UNCHANGED <<doneMutex, todoWaiters, doneWaiters, todo, done, performed, notifying, notifyCalls,
                 created, finished, k, tsk, drop, spurLeft>>

dWakeSpur ==
  /\ pc[1] = "dWake" /\ 1 \in doneWaiters /\ todoMutex = NoOwner /\ spurLeft > 0
  /\ doneWaiters' = doneWaiters \ {1} /\ todoMutex' = 1 /\ spurLeft' = spurLeft - 1
  /\ AfterDrainCheck
  /\ UNCHANGED <<doneMutex, todoWaiters, woken, todo, done, performed, notifying, notifyCalls,
                 created, finished, k, tsk, drop>>

dUnlock ==
  /\ pc[1] = "dUnlock"
  /\ todoMutex' = NoOwner /\ Set(1, "dBcast")
  /\ UNCHANGED <<doneMutex, todoWaiters, doneWaiters, woken, todo, done, down, performed, notifying, notifyCalls,
                 created, finished, k, tsk, drop, spurLeft>>

dBcast ==
  /\ pc[1] = "dBcast"
  /\ woken' = woken \cup todoWaiters /\ todoWaiters' = {}
  /\ Set(1, "join")
  /\ UNCHANGED <<todoMutex, doneMutex, doneWaiters, todo, done, down, performed, notifying, notifyCalls,
                 created, finished, k, tsk, drop, spurLeft>>

join ==
  /\ pc[1] = "join" /\ (k + 1) \in finished
  /\ IF k < W THEN /\ k' = k + 1 /\ Set(1, "join")
               ELSE /\ k' = k /\ Set(1, "Done")
  /\ UNCHANGED <<todoMutex, doneMutex, todoWaiters, doneWaiters, woken, todo, done, down, performed,
                 notifying, notifyCalls, created, finished, tsk, drop, spurLeft>>

\* ------------------------------------------------------------ workers
wStart(p) ==
  /\ pc[p] = "wStart" /\ p \in created
  /\ Set(p, "wLock")
  /\ UNCHANGED <<todoMutex, doneMutex, todoWaiters, doneWaiters, woken, todo, done, down, performed,
                 notifying, notifyCalls, created, finished, k, tsk, drop, spurLeft>>

\* what a worker does once it holds the todo mutex at the top of its loop
AfterTodoLock(p) ==
  IF Len(todo) = 0 /\ ~down
  THEN /\ Set(p, "wWait") /\ UNCHANGED <<todo, tsk>>
  ELSE /\ Set(p, "wUnlock")
       /\ IF Len(todo) > 0 THEN /\ tsk' = [tsk EXCEPT ![p] = Head(todo)] /\ todo' = Tail(todo)
                           ELSE /\ tsk' = [tsk EXCEPT ![p] = 0] /\ UNCHANGED todo

wLock(p) ==
  /\ pc[p] = "wLock" /\ todoMutex = NoOwner
  /\ todoMutex' = p
  /\ AfterTodoLock(p)
  /\ UNCHANGED <<doneMutex, todoWaiters, doneWaiters, woken, done, down, performed, notifying, notifyCalls,
                 created, finished, k, drop, spurLeft>>

wWait(p) ==
  /\ pc[p] = "wWait"
  /\ todoMutex' = NoOwner /\ todoWaiters' = todoWaiters \cup {p} /\ Set(p, "wWake")
  /\ UNCHANGED <<doneMutex, doneWaiters, woken, todo, done, down, performed, notifying, notifyCalls,
                 created, finished, k, tsk, drop, spurLeft>>

wWake(p) ==
  /\ pc[p] = "wWake" /\ p \in woken /\ todoMutex = NoOwner
  /\ woken' = woken \ {p} /\ todoMutex' = p
  /\ AfterTodoLock(p)
  /\ UNCHANGED <<doneMutex, todoWaiters, doneWaiters, done, down, performed, notifying, notifyCalls,
                 created, finished, k, drop, spurLeft>>

wWakeSpur(p) ==
  /\ pc[p] = "wWake" /\ p \in todoWaiters /\ todoMutex = NoOwner /\ spurLeft > 0
  /\ todoWaiters' = todoWaiters \ {p} /\ todoMutex' = p /\ spurLeft' = spurLeft - 1
  /\ AfterTodoLock(p)
  /\ UNCHANGED <<doneMutex, doneWaiters, woken, done, down, performed, notifying, notifyCalls,
                 created, finished, k, drop>>

\* unlock, then task::perform() (thread-local) if a task was taken
wUnlock(p) ==
  /\ pc[p] = "wUnlock"
  /\ todoMutex' = NoOwner
  /\ IF tsk[p] # 0 THEN /\ performed' = [performed EXCEPT ![tsk[p]] = @ + 1] /\ Set(p, "wDLock")
                   ELSE /\ UNCHANGED performed /\ Set(p, "wFLock")
  /\ UNCHANGED <<doneMutex, todoWaiters, doneWaiters, woken, todo, done, down, notifying, notifyCalls,
                 created, finished, k, tsk, drop, spurLeft>>

\* lock tasks_done_mutex, push_back, enter the notifier (which contains one scheduling point)
wDLock(p) ==
  /\ pc[p] = "wDLock" /\ doneMutex = NoOwner
  /\ doneMutex' = p /\ done' = Append(done, tsk[p]) /\ notifying' = notifying + 1 /\ Set(p, "wNotify")
  /\ UNCHANGED <<todoMutex, todoWaiters, doneWaiters, woken, todo, down, performed, notifyCalls,
                 created, finished, k, tsk, drop, spurLeft>>

wNotify(p) ==
  /\ pc[p] = "wNotify"
  /\ notifying' = notifying - 1 /\ notifyCalls' = notifyCalls + 1 /\ Set(p, "wDUnlock")
  /\ UNCHANGED <<todoMutex, doneMutex, todoWaiters, doneWaiters, woken, todo, done, down, performed,
                 created, finished, k, tsk, drop, spurLeft>>

wDUnlock(p) ==
  /\ pc[p] = "wDUnlock"
  /\ doneMutex' = NoOwner /\ Set(p, "wDSignal")
  /\ UNCHANGED <<todoMutex, todoWaiters, doneWaiters, woken, todo, done, down, performed, notifying, notifyCalls,
                 created, finished, k, tsk, drop, spurLeft>>

wDSignal(p) ==
  /\ pc[p] = "wDSignal"
  /\ IF doneWaiters = {} THEN UNCHANGED <<doneWaiters, woken>>
     ELSE \E w \in doneWaiters : /\ doneWaiters' = doneWaiters \ {w} /\ woken' = woken \cup {w}
  /\ Set(p, "wFLock")
  /\ UNCHANGED <<todoMutex, doneMutex, todoWaiters, todo, done, down, performed, notifying, notifyCalls,
                 created, finished, k, tsk, drop, spurLeft>>

wFLock(p) ==
  /\ pc[p] = "wFLock" /\ todoMutex = NoOwner
  /\ todoMutex' = p /\ drop' = [drop EXCEPT ![p] = down] /\ Set(p, "wFUnlock")
  /\ UNCHANGED <<doneMutex, todoWaiters, doneWaiters, woken, todo, done, down, performed, notifying, notifyCalls,
                 created, finished, k, tsk, spurLeft>>

wFUnlock(p) ==
  /\ pc[p] = "wFUnlock"
  /\ todoMutex' = NoOwner
  /\ IF drop[p] THEN /\ Set(p, "Done") /\ finished' = finished \cup {p}
                ELSE /\ Set(p, "wLock") /\ UNCHANGED finished
  /\ UNCHANGED <<doneMutex, todoWaiters, doneWaiters, woken, todo, done, down, performed, notifying, notifyCalls,
                 created, k, tsk, drop, spurLeft>>

MainStep == create \/ sLock \/ sUnlock \/ sSignal \/ dLock \/ dWait \/ dWake \/ dWakeSpur \/ dUnlock \/ dBcast \/ join
WorkerStep(p) == wStart(p) \/ wLock(p) \/ wWait(p) \/ wWake(p) \/ wWakeSpur(p) \/ wUnlock(p) \/ wDLock(p)
                 \/ wNotify(p) \/ wDUnlock(p) \/ wDSignal(p) \/ wFLock(p) \/ wFUnlock(p)

AllDone == \A p \in Procs : pc[p] = "Done"
Next == MainStep \/ (\E p \in Workers : WorkerStep(p)) \/ (AllDone /\ UNCHANGED vars)

\* fairness: every process that can take a non-spurious step eventually does
MainFair == create \/ sLock \/ sUnlock \/ sSignal \/ dLock \/ dWait \/ dWake \/ dUnlock \/ dBcast \/ join
WorkerFair(p) == wStart(p) \/ wLock(p) \/ wWait(p) \/ wWake(p) \/ wUnlock(p) \/ wDLock(p)
                 \/ wNotify(p) \/ wDUnlock(p) \/ wDSignal(p) \/ wFLock(p) \/ wFUnlock(p)
Spec == Init /\ [][Next]_vars /\ WF_vars(MainFair) /\ \A p \in Workers : WF_vars(WorkerFair(p))

\* ------------------------------------------------------------ properties
PerformedAtMostOnce == \A x \in Tasks : performed[x] <= 1
NotifierExclusive   == notifying <= 1
DoneNoDup           == \A a, b \in 1..Len(done) : a # b => done[a] # done[b]
DoneWerePerformed   == \A a \in 1..Len(done) : performed[done[a]] = 1
FinalOK == (pc[1] = "Done" /\ W > 0) =>
             /\ \A x \in Tasks : performed[x] = 1
             /\ Len(done) = T /\ \A x \in Tasks : \E a \in 1..Len(done) : done[a] = x
             /\ notifyCalls = T /\ notifying = 0
             /\ finished = Workers
\* a state without successor other than stuttering must be the final one
NoDeadlock == (~ENABLED (MainStep \/ \E p \in Workers : WorkerStep(p))) => AllDone
Termination == <>(pc[1] = "Done")
=========================================================================
