#!/bin/sh
# Offline setup: build every variant of libabigail from /repo's working tree
# into /verif/build (content-addressed cache).  Checks rebuild on their own
# when the tree changes; this only warms the cache.
set -e
cd "$(dirname "$0")"
python3 lib/vf/build.py plain asan debugtc tsan
