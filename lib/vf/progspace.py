"""The program-space transition system (engine E7).

State   = a *unit*: a few type definitions plus one exported function (and sometimes a variable)
          whose signature reaches the types through an access path.  Units are independent, so
          many of them are *packed* into one binary (names carry the unit index) to amortise
          compiler and tool start-up; any failure is re-examined on the isolated unit.
Edge    = a labelled source edit of a unit with a known ABI class (breaking / harmless / neutral)
          and the set of affected exported interfaces (always the unit's function / variable).
The node set is the full product  aggregate kind x member sequences (<= bound) x access path,
plus hand-written construction seeds (recursion, anonymous members, enums, function pointers, C++).
"""
import copy
import hashlib
import itertools
import json

from . import cbuild

# ------------------------------------------------------------------ type expressions
# ('b', 'int') base | ('s', name) | ('u', name) | ('e', name) | ('t', name) typedef ref
# ('p', T) | ('c', T) const | ('v', T) volatile | ('a', T, n) | ('f', ret, (params...)) pointer-to-function


def cdecl(t, inner=""):
    k = t[0]
    sp = (" " + inner) if inner else ""
    if k == "b":
        return t[1] + sp
    if k in "sue":
        return {"s": "struct ", "u": "union ", "e": "enum "}[k] + t[1] + sp
    if k == "t":
        return t[1] + sp
    if k == "p":
        sub = t[1]
        if sub[0] == "a":
            return cdecl(sub, "(*" + inner + ")")
        return cdecl(sub, "*" + inner)
    if k in "cv":
        q = "const" if k == "c" else "volatile"
        sub = t[1]
        if sub[0] == "f":
            psl = ", ".join(cdecl(p) for p in sub[2]) or "void"
            return cdecl(sub[1], "(* %s %s)(%s)" % (q, inner, psl))
        if sub[0] == "p":
            pointee = sub[1]
            if pointee[0] == "a":
                return cdecl(pointee, "(* %s %s)" % (q, inner))
            return cdecl(pointee, "* %s %s" % (q, inner))
        return q + " " + cdecl(sub, inner)
    if k == "a":
        return cdecl(t[1], inner + "[%d]" % t[2])
    if k == "f":
        ps = ", ".join(cdecl(p) for p in t[2]) or "void"
        return cdecl(t[1], "(*" + inner + ")(" + ps + ")")
    raise ValueError(t)


def type_str(t):
    """Canonical spelling used by the model (mirrors libabigail's pretty names closely enough
    for set comparisons done by the checks themselves, never parsed back)."""
    return cdecl(t).strip()


BASE_SIZE = {"char": 1, "short": 2, "int": 4, "long": 8, "float": 4, "double": 8, "long long": 8, "unsigned char": 1}


def simple_size(t):
    """Size/alignment of simple member types on x86-64 (only used to CLASSIFY union edits in
    signatures - never as an oracle).  Returns None when unknown."""
    if t[0] == "b":
        return BASE_SIZE.get(t[1])
    if t[0] in "pf":
        return 8
    if t[0] == "a":
        s = simple_size(t[1])
        return None if s is None else s * t[2]
    if t[0] in "cv":
        return simple_size(t[1])
    return None


def union_size(members):
    sizes = [simple_size(t) for _, t, b in members]
    if any(x is None for x in sizes) or not sizes:
        return None
    al = max(min(x, 8) if x in (1, 2, 4, 8) else 4 if x % 8 else 8 for x in sizes)
    m = max(sizes)
    return (m + al - 1) // al * al


def mentions(t, kind, name):
    if t[0] in "suet":
        return t[0] == kind and t[1] == name
    if t[0] == "b":
        return False
    if t[0] == "f":
        return mentions(t[1], kind, name) or any(mentions(p, kind, name) for p in t[2])
    return mentions(t[1], kind, name)


# ------------------------------------------------------------------ units
class Unit(object):
    """types: list of decls  ('struct'|'union', name, [(member, T, bits or None)])
                             ('enum', name, [(enumerator, value)])
                             ('typedef', name, T)
                             ('fwd', 'struct', name)
       fn:  dict(name, ret, params=[(name, T)], variadic, body) or None
       var: (name, T) or None
       extra: raw C text appended (static helpers etc.)."""

    def __init__(self, types, fn=None, var=None, extra="", lang="c", tag=""):
        self.types, self.fn, self.var, self.extra, self.lang, self.tag = types, fn, var, extra, lang, tag
        self.tu = 0            # translation unit the definitions go to
        self.pre = ""          # text placed before the unit (comments / blank lines)

    def clone(self):
        return copy.deepcopy(self)

    def key(self):
        return hashlib.sha256(json.dumps([self.types, self.fn, self.var, self.extra, self.lang, self.tu, self.pre], sort_keys=True, default=str).encode()).hexdigest()[:16]

    def rename(self, sfx):
        """Give every identifier of the unit a unique suffix (packing)."""
        u = self.clone()
        names = set()
        for d in u.types:
            names.add(d[1] if d[0] != "fwd" else d[2])
            if d[0] in ("struct", "union"):
                pass
            if d[0] == "enum":
                for n, v in d[2]:
                    names.add(n)
        if u.fn:
            names.add(u.fn["name"])
        if u.var:
            names.add(u.var[0])
        ren = dict((n, "%s_%s" % (n, sfx)) for n in names)

        def rt(t):
            if t[0] in "suet":
                return (t[0], ren.get(t[1], t[1]))
            if t[0] == "b":
                return t
            if t[0] == "f":
                return ("f", rt(t[1]), tuple(rt(p) for p in t[2]))
            if t[0] == "a":
                return ("a", rt(t[1]), t[2])
            return (t[0], rt(t[1]))
        nt = []
        for d in u.types:
            if d[0] in ("struct", "union"):
                nt.append((d[0], ren[d[1]], [(m, rt(t), b) for (m, t, b) in d[2]]))
            elif d[0] == "enum":
                nt.append(("enum", ren[d[1]], [(ren[n], v) for n, v in d[2]]))
            elif d[0] == "typedef":
                nt.append(("typedef", ren[d[1]], rt(d[2])))
            else:
                nt.append(("fwd", d[1], ren[d[2]]))
        u.types = nt
        if u.fn:
            u.fn = dict(u.fn, name=ren[u.fn["name"]], ret=rt(u.fn["ret"]), params=[(n, rt(t)) for n, t in u.fn["params"]])
        if u.var:
            u.var = (ren[u.var[0]], rt(u.var[1]))
        for a, b in ren.items():
            u.extra = u.extra.replace("@" + a + "@", b)
        return u

    # -------------------------------------------------------------- C emission
    def emit_types(self):
        out = []
        for d in self.types:
            if d[0] in ("struct", "union"):
                ms = []
                for m, t, b in d[2]:
                    if m is None:      # anonymous member
                        ms.append("  %s;" % cdecl(t))
                    elif b is not None:
                        ms.append("  %s:%d;" % (cdecl(t, m), b))
                    else:
                        ms.append("  %s;" % cdecl(t, m))
                out.append("%s %s {\n%s\n};" % (d[0], d[1], "\n".join(ms)))
            elif d[0] == "enum":
                out.append("enum %s { %s };" % (d[1], ", ".join("%s = %d" % (n, v) for n, v in d[2])))
            elif d[0] == "typedef":
                out.append("typedef %s;" % cdecl(d[2], d[1]))
            else:
                out.append("%s %s;" % (d[1], d[2]))
        return "\n".join(out)

    def emit_fn(self):
        if not self.fn:
            return ""
        f = self.fn
        ps = ", ".join(cdecl(t, n) for n, t in f["params"])
        if f.get("variadic"):
            ps = (ps + ", ...") if ps else "int n0, ..."
        body = f.get("body_prefix", "") + (f.get("body") or "") if f.get("body") else f.get("body_prefix", "") + ("return (%s)0;" % cdecl(f["ret"]).strip() if f["ret"] != ("b", "void") and f["ret"][0] in "bpe" else
                                 ("" if f["ret"] == ("b", "void") else "%s r; __builtin_memset(&r, 0, sizeof r); return r;" % cdecl(f["ret"]).strip()))
        ext = 'extern "C" ' if self.lang == "c++" else ""
        return "%s%s(%s) { %s }" % (ext, cdecl(f["ret"], f["name"]), ps or "void", body)

    def emit_var(self):
        if not self.var:
            return ""
        ext = 'extern "C" { %s; }' % cdecl(self.var[1], self.var[0]) if self.lang == "c++" else cdecl(self.var[1], self.var[0]) + ";"
        return ext

    def emit(self):
        return "\n".join(x for x in (self.pre, self.emit_types(), self.extra, self.emit_fn(), self.emit_var()) if x) + "\n"

    def interfaces(self):
        r = []
        if self.fn:
            r.append(self.fn["name"])
        if self.var:
            r.append(self.var[0])
        return r


# ------------------------------------------------------------------ node catalogue
MEMBER_ALPHABET = [
    ("c", ("b", "char"), None), ("i", ("b", "int"), None), ("l", ("b", "long"), None), ("d", ("b", "double"), None),
    ("p", ("p", ("b", "int")), None), ("a", ("a", ("b", "int"), 2), None), ("b3", ("b", "int"), 3), ("s", ("b", "short"), None),
]
ACCESS_PATHS = ["byval", "ptr", "constptr", "ptrptr", "typedef", "ret", "fnptr", "member", "var", "array"]


def make_unit(kind, members, path):
    """members: list of alphabet entries; returns a Unit using aggregate S through the access path."""
    ms = [("m%d" % i, t, b) for i, (_, t, b) in enumerate(members)]
    types = [(kind, "S", ms)]
    S = ("s" if kind == "struct" else "u", "S")
    fn = {"name": "f", "ret": ("b", "int"), "params": [], "variadic": False}
    var = None
    if path == "byval":
        fn["params"] = [("a", S)]
    elif path == "ptr":
        fn["params"] = [("a", ("p", S))]
    elif path == "constptr":
        fn["params"] = [("a", ("p", ("c", S)))]
    elif path == "ptrptr":
        fn["params"] = [("a", ("p", ("p", S)))]
    elif path == "typedef":
        types.append(("typedef", "T", S))
        fn["params"] = [("a", ("p", ("t", "T")))]
    elif path == "ret":
        fn["ret"] = ("p", S)
        fn["params"] = [("x", ("b", "int"))]
    elif path == "fnptr":
        fn["params"] = [("cb", ("f", ("b", "int"), (("p", S), ("b", "int"))))]
    elif path == "member":
        types.append(("struct", "O", [("x", ("b", "int"), None), ("in", S, None), ("y", ("b", "char"), None)]))
        fn["params"] = [("a", ("p", ("s", "O")))]
    elif path == "var":
        fn = None
        var = ("g", S)
    elif path == "array":
        types.append(("struct", "O", [("arr", ("a", S, 2), None)]))
        fn["params"] = [("a", ("p", ("s", "O")))]
    return Unit(types, fn, var, tag="%s/%s/%s" % (kind, "".join(m[0] for m in members), path))


def special_units():
    """Construction seeds that the product space does not reach."""
    us = []
    # enum reached by value and through a struct
    us.append(Unit([("enum", "E", [("E0", 0), ("E1", 1), ("E2", 5)])],
                   {"name": "f", "ret": ("e", "E"), "params": [("e", ("e", "E"))], "variadic": False}, tag="enum/byval"))
    us.append(Unit([("enum", "E", [("E0", 0), ("E1", 1)]), ("struct", "S", [("k", ("e", "E"), None), ("n", ("b", "int"), None)])],
                   {"name": "f", "ret": ("b", "int"), "params": [("a", ("p", ("s", "S")))], "variadic": False}, tag="enum/member"))
    # recursion
    us.append(Unit([("struct", "S", [("next", ("p", ("s", "S")), None), ("v", ("b", "int"), None)])],
                   {"name": "f", "ret": ("b", "int"), "params": [("a", ("p", ("s", "S")))], "variadic": False}, tag="recursive/self"))
    us.append(Unit([("fwd", "struct", "B"), ("struct", "S", [("b", ("p", ("s", "B")), None), ("v", ("b", "int"), None)]),
                    ("struct", "B", [("a", ("p", ("s", "S")), None), ("w", ("b", "long"), None)])],
                   {"name": "f", "ret": ("b", "int"), "params": [("a", ("p", ("s", "S")))], "variadic": False}, tag="recursive/mutual"))
    # anonymous members
    us.append(Unit([("struct", "S", [("tag", ("b", "int"), None), (None, ("u", "") if False else ("b", "union { int i; float f; }"), None), ("z", ("b", "char"), None)])],
                   {"name": "f", "ret": ("b", "int"), "params": [("a", ("p", ("s", "S")))], "variadic": False}, tag="anon/union-member"))
    # typedef chain and const/volatile
    us.append(Unit([("struct", "S", [("v", ("b", "int"), None)]), ("typedef", "T1", ("s", "S")), ("typedef", "T2", ("t", "T1"))],
                   {"name": "f", "ret": ("b", "int"), "params": [("a", ("p", ("c", ("t", "T2")))), ("b", ("p", ("v", ("b", "int"))))], "variadic": False}, tag="typedef/chain"))
    # variadic, void*, function pointer return
    us.append(Unit([("struct", "S", [("v", ("b", "int"), None)])],
                   {"name": "f", "ret": ("p", ("b", "void")), "params": [("a", ("p", ("s", "S")))], "variadic": True}, tag="variadic"))
    # opaque declaration-only type
    us.append(Unit([("fwd", "struct", "S")],
                   {"name": "f", "ret": ("p", ("s", "S")), "params": [("a", ("p", ("s", "S")))], "variadic": False}, tag="opaque"))
    # variable of pointer / array type
    us.append(Unit([("struct", "S", [("v", ("b", "int"), None), ("w", ("b", "char"), None)])], None, ("g", ("a", ("s", "S"), 3)), tag="var/array"))
    us.append(Unit([("union", "S", [("i", ("b", "int"), None), ("d", ("b", "double"), None)])],
                   {"name": "f", "ret": ("b", "int"), "params": [("a", ("u", "S"))], "variadic": False}, tag="union/byval"))
    # two-dimensional array member: reshaping it at constant size is an ABI change that leaves every size and offset alone
    us.append(Unit([("struct", "S", [("m", ("a", ("a", ("b", "int"), 3), 2), None), ("k", ("b", "int"), None)])],
                   {"name": "f", "ret": ("b", "int"), "params": [("a", ("p", ("s", "S")))], "variadic": False}, tag="array/2d-member"))
    # parameters whose type is a typedef, taken by value (top-level cv-qualifiers on them are harmless changes)
    us.append(Unit([("typedef", "MU", ("b", "unsigned"))],
                   {"name": "f", "ret": ("b", "int"), "params": [("x", ("t", "MU")), ("y", ("b", "int"))], "variadic": False}, tag="typedef/byval-scalar"))
    us.append(Unit([("struct", "S", [("v", ("b", "int"), None)]), ("typedef", "SP", ("p", ("s", "S")))],
                   {"name": "f", "ret": ("b", "int"), "params": [("p", ("t", "SP"))], "variadic": False}, tag="typedef/byval-pointer"))
    return us


def node_units(max_members=2, kinds=("struct",), paths=None, alphabet=None):
    paths = paths or ACCESS_PATHS
    alphabet = alphabet or MEMBER_ALPHABET
    for kind in kinds:
        for n in range(1, max_members + 1):
            for ms in itertools.product(alphabet, repeat=n):
                if kind == "union" and any(m[2] is not None for m in ms) and n > 2:
                    continue
                for p in paths:
                    yield make_unit(kind, list(ms), p)
    for u in special_units():
        yield u


# ------------------------------------------------------------------ edits
def _S(u):
    for i, d in enumerate(u.types):
        if d[0] in ("struct", "union") and d[1] == "S":
            return i, d
    return None, None


def breaking_edits(u):
    """(label, edited unit, expectation) ; expectation: 'changed' | 'removed'."""
    out = []
    i, d = _S(u)
    if d is not None and all(m[0] is not None for m in d[2]):
        ms = d[2]
        for pos in range(len(ms) + 1):
            for nm, nt in (("ins_i", ("b", "int")), ("ins_c", ("b", "char"))):
                v = u.clone()
                v.types[i] = (d[0], d[1], ms[:pos] + [(nm, nt, None)] + ms[pos:])
                out.append(("insert-member-%s@%d" % (nm[-1], pos), v, "changed"))
        if len(ms) > 1:
            for pos in range(len(ms)):
                v = u.clone()
                v.types[i] = (d[0], d[1], ms[:pos] + ms[pos + 1:])
                out.append(("remove-member@%d" % pos, v, "changed"))
            for pos in range(len(ms) - 1):
                if ms[pos][1:] != ms[pos + 1][1:] and d[0] == "struct":
                    v = u.clone()
                    n = list(ms)
                    n[pos], n[pos + 1] = n[pos + 1], n[pos]
                    v.types[i] = (d[0], d[1], n)
                    out.append(("swap-members@%d" % pos, v, "changed"))
        for pos, (m, t, b) in enumerate(ms):
            repl = {("b", "int"): [("b", "long"), ("b", "float")], ("b", "char"): [("b", "short")], ("b", "long"): [("b", "double"), ("b", "int")],
                    ("b", "double"): [("b", "long"), ("b", "float")], ("b", "short"): [("b", "int")], ("p", ("b", "int")): [("p", ("b", "char"))],
                    ("a", ("b", "int"), 2): [("a", ("b", "int"), 3)],
                    ("a", ("a", ("b", "int"), 3), 2): [("a", ("a", ("b", "int"), 2), 3), ("a", ("b", "int"), 6), ("a", ("a", ("b", "int"), 3), 3)]}.get(t, [])
            if b is not None:
                # a bit-field width change is NOT in the property's list of incompatible edits (libabigail does not
                # record bit-field widths at all), so it is not part of the breaking catalogue
                repl = []
            for r in repl:
                v = u.clone()
                n = list(ms)
                n[pos] = (m, r, b)
                v.types[i] = (d[0], d[1], n)
                out.append(("retype-member@%d-%s" % (pos, cdecl(r).replace(" ", "")), v, "changed"))
    for j, dd in enumerate(u.types):
        if dd[0] == "enum":
            for pos, (n, val) in enumerate(dd[2]):
                v = u.clone()
                en = list(dd[2])
                en[pos] = (n, val + 100)
                v.types[j] = ("enum", dd[1], en)
                out.append(("enumerator-value@%d" % pos, v, "changed"))
    if u.fn:
        v = u.clone()
        v.fn["params"] = v.fn["params"] + [("extra", ("b", "int"))]
        out.append(("add-parameter", v, "changed"))
        if u.fn["params"]:
            v = u.clone()
            v.fn["params"] = v.fn["params"][:-1]
            if v.fn["params"] or not v.fn.get("variadic"):
                out.append(("remove-parameter", v, "changed"))
        v = u.clone()
        v.fn["ret"] = ("b", "long") if u.fn["ret"] != ("b", "long") else ("b", "int")
        out.append(("change-return-type", v, "changed"))
        v = u.clone()
        v.fn = None
        v.extra += "\n"
        out.append(("remove-function", v, "removed"))
    if u.var:
        v = u.clone()
        v.var = None
        out.append(("remove-variable", v, "removed"))
    return out


def neutral_edits(u):
    out = []
    if u.fn:
        v = u.clone()
        v.fn["body_prefix"] = "volatile int zz = 7; (void)zz; "
        out.append(("change-body", v))
        if u.fn["params"]:
            v = u.clone()
            v.fn["params"] = [("renamed_" + n, t) for n, t in u.fn["params"]]
            out.append(("rename-parameters", v))
    v = u.clone()
    v.pre = "\n\n/* shifted */\n\n\n"
    out.append(("shift-lines", v))
    v = u.clone()
    v.extra += "\nstatic int @f@_helper(int x) { return x + 1; }\nstatic int @f@_hvar = 3;\n" if u.fn else "\nstatic int @g@_hvar = 3;\n"
    out.append(("add-static", v))
    v = u.clone()
    v.types = v.types + [("struct", "Unused", [("q", ("b", "int"), None)])]
    out.append(("add-unused-type", v))
    v = u.clone()
    v.tu = 1
    out.append(("move-to-other-tu", v))
    return out


def _default_body(u):
    f = u.fn
    if f["ret"] == ("b", "void"):
        return ""
    if f["ret"][0] in "bpe":
        return "return (%s)0;" % cdecl(f["ret"]).strip()
    return "%s r; __builtin_memset(&r, 0, sizeof r); return r;" % cdecl(f["ret"]).strip()


def harmless_edits(u):
    """Documented harmless changes that can be realised in C as the only difference."""
    out = []
    for j, dd in enumerate(u.types):
        if dd[0] == "enum":
            v = u.clone()
            v.types[j] = ("enum", dd[1], dd[2] + [("EAPP", max(x for _, x in dd[2]) + 1)])
            out.append(("append-enumerator", v))
    if u.fn:
        for k, (n, t) in enumerate(u.fn["params"]):
            if t[0] in "bset" or t[0] == "p":
                for q, qn in (("c", "const"), ("v", "volatile")):
                    v = u.clone()
                    ps = list(u.fn["params"])
                    ps[k] = (n, (q, t))
                    v.fn["params"] = ps
                    out.append(("toplevel-%s-param@%d" % (qn, k), v))
                break
    for j, dd in enumerate(u.types):
        if dd[0] == "typedef" and dd[1] == "T":
            # rename a typedef of a compatible type: the function still takes "the same" type under another name
            v = u.clone()
            v.types[j] = ("typedef", "Tr", dd[2])
            if v.fn:
                v.fn["params"] = [(n, _subst(t, ("t", "T"), ("t", "Tr"))) for n, t in v.fn["params"]]
                v.fn["ret"] = _subst(v.fn["ret"], ("t", "T"), ("t", "Tr"))
            out.append(("rename-typedef", v))
    return out


def _subst(t, a, b):
    if t == a:
        return b
    if t[0] == "b" or t[0] in "suet":
        return t
    if t[0] == "f":
        return ("f", _subst(t[1], a, b), tuple(_subst(p, a, b) for p in t[2]))
    if t[0] == "a":
        return ("a", _subst(t[1], a, b), t[2])
    return (t[0], _subst(t[1], a, b))


# ------------------------------------------------------------------ packing and building
def pack_source(units, lang="c"):
    """units: list of (index, Unit) already renamed.  Returns {tu_index: text}."""
    tus = {0: "", 1: ""}
    for idx, u in units:
        tus[u.tu] += "/* unit %s */\n%s\n" % (idx, u.emit())
    # anchors: both translation units always exist and the binary always exports something
    tus[0] += "int zz_anchor_fn(void) { return 0; }\n"
    tus[1] += "int zz_anchor_var = 1;\n"
    return tus


def build_pack(units, cc="gcc", flags=("-g",), lang="c", kind="shared", name="libpack.so", link=()):
    tus = pack_source(units, lang)
    ext = ".c" if lang == "c" else ".cc"
    fl = list(flags) + (["-std=c++11"] if lang == "c++" else [])
    return cbuild.compile_units([("tu%d%s" % (k, ext), v, fl) for k, v in sorted(tus.items())], link_flags=["-Wl,-soname," + name] + list(link),
                                out_name=name, cc=cc, kind=kind, tag="pack1")


def chunk(lst, n):
    for i in range(0, len(lst), n):
        yield lst[i:i + n]
