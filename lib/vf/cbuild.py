"""Content-addressed cache of compiled test binaries.

A binary depends only on (sources, compiler, flags) - never on libabigail - so it is
kept under /verif/cache/bin/<sha>/ across runs.  Sources are written to a fixed
directory /verif/cache/src/<sha>/ so that DW_AT_comp_dir / DW_AT_name are stable."""
import hashlib
import json
import os
import shutil
import subprocess
import tempfile

from . import build

CACHE = os.path.join(build.VERIF, "cache")
ENV = {"LC_ALL": "C", "PATH": "/usr/local/bin:/usr/bin:/bin", "HOME": "/tmp", "SOURCE_DATE_EPOCH": "1"}


class CompileError(Exception):
    pass


def _key(obj):
    return hashlib.sha256(json.dumps(obj, sort_keys=True).encode()).hexdigest()[:24]


def _write_atomic(path, text):
    """Several workers may build the same key at once: never expose a truncated source file."""
    tmp = "%s.%d.tmp" % (path, os.getpid())
    with open(tmp, "w") as f:
        f.write(text)
    os.replace(tmp, path)


def compile_units(units, link_flags=(), out_name="lib.so", cc="gcc", kind="shared", post=None, extra_files=None, tag="v1"):
    """units: list of (filename, source_text, [cflags]).  Returns path of the output.
    kind: shared | exe | reloc | objs(only objects; returns dir).  post: list of shell-free
    argv templates run in the source dir after compilation ({out} is substituted)."""
    spec = {"units": [[f, s, list(fl)] for f, s, fl in units], "link": list(link_flags), "out": out_name,
            "cc": cc, "kind": kind, "post": post, "extra": extra_files, "tag": tag}
    k = _key(spec)
    bdir = os.path.join(CACHE, "bin", k)
    out = os.path.join(bdir, out_name)
    if os.path.exists(os.path.join(bdir, ".ok")):
        return out
    if os.path.exists(os.path.join(bdir, ".fail")):
        raise CompileError(open(os.path.join(bdir, ".fail")).read())
    sdir = os.path.join(CACHE, "src", k)
    os.makedirs(sdir, exist_ok=True)
    tmpb = tempfile.mkdtemp(prefix=k + ".", dir=os.path.join(CACHE, "bin")) if os.path.isdir(os.path.join(CACHE, "bin")) else None
    if tmpb is None:
        os.makedirs(os.path.join(CACHE, "bin"), exist_ok=True)
        tmpb = tempfile.mkdtemp(prefix=k + ".", dir=os.path.join(CACHE, "bin"))
    try:
        for fn, text in (extra_files or {}).items():
            p = os.path.join(sdir, fn)
            os.makedirs(os.path.dirname(p), exist_ok=True)
            _write_atomic(p, text)
        objs = []
        log = ""
        for fn, src, flags in units:
            p = os.path.join(sdir, fn)
            os.makedirs(os.path.dirname(p), exist_ok=True)
            _write_atomic(p, src)
            o = os.path.join(tmpb, os.path.basename(fn) + ".o")
            comp = cc
            if fn.endswith((".cc", ".cpp")):
                comp = {"gcc": "g++", "clang": "clang++"}.get(cc, cc)
            r = subprocess.run([comp, "-c", fn, "-o", o, "-fPIC"] + list(flags), cwd=sdir, env=ENV,
                               stdout=subprocess.PIPE, stderr=subprocess.STDOUT)
            log += r.stdout.decode(errors="replace")
            if r.returncode != 0:
                raise CompileError("compile %s failed:\n%s" % (fn, log[-3000:]))
            objs.append(o)
        tmp_out = os.path.join(tmpb, out_name)
        if kind == "objs":
            pass
        else:
            comp = cc
            if any(fn.endswith((".cc", ".cpp")) for fn, _, _ in units):
                comp = {"gcc": "g++", "clang": "clang++"}.get(cc, cc)
            if kind == "shared":
                cmd = [comp, "-shared", "-o", tmp_out] + objs + list(link_flags)
            elif kind == "exe":
                cmd = [comp, "-o", tmp_out] + objs + list(link_flags)
            elif kind == "reloc":
                cmd = ["ld", "-r", "-o", tmp_out] + objs + list(link_flags)
            else:
                raise ValueError(kind)
            r = subprocess.run(cmd, cwd=sdir, env=ENV, stdout=subprocess.PIPE, stderr=subprocess.STDOUT)
            if r.returncode != 0:
                raise CompileError("link failed: %s\n%s" % (" ".join(cmd), r.stdout.decode(errors="replace")[-3000:]))
        for argv in (post or []):
            argv = [a.replace("{out}", tmp_out).replace("{dir}", tmpb) for a in argv]
            r = subprocess.run(argv, cwd=sdir, env=ENV, stdout=subprocess.PIPE, stderr=subprocess.STDOUT)
            if r.returncode != 0:
                raise CompileError("post step failed: %s\n%s" % (" ".join(argv), r.stdout.decode(errors="replace")[-3000:]))
        open(os.path.join(tmpb, ".ok"), "w").close()
        try:
            os.rename(tmpb, bdir)
        except OSError:
            shutil.rmtree(tmpb, ignore_errors=True)   # somebody else finished first
        return out
    except CompileError as e:
        shutil.rmtree(tmpb, ignore_errors=True)
        os.makedirs(bdir, exist_ok=True)
        with open(os.path.join(bdir, ".fail"), "w") as f:
            f.write(str(e))
        raise


def srcdir_of(path):
    """Source directory matching a cached binary."""
    k = os.path.basename(os.path.dirname(path))
    return os.path.join(CACHE, "src", k)


def shared_c(src, flags=("-g",), link=(), name="lib.so", cc="gcc", **kw):
    return compile_units([("t.c", src, list(flags))], link_flags=link, out_name=name, cc=cc, **kw)
