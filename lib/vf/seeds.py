"""Hand-written seed programs (C and C++) covering the ABI features the properties talk about.
Each seed: name -> dict(units=[(file, source)], lang, link flags, v2 = changed variant or None)."""
from . import cbuild

BASIC = r'''
struct point { int x; int y; };
enum color { RED, GREEN = 5, BLUE };
typedef struct point point_t;
typedef unsigned long ulong_t;
int g_counter = 3;
const char* g_name = "abc";
point_t g_origin;
int dist(const struct point* a, point_t b) { return a->x - b.x; }
enum color next_color(enum color c) { return (enum color)(c + 1); }
ulong_t scale(ulong_t v, unsigned char f) { return v * f; }
void set_name(const char* n) { g_name = n; }
'''
BASIC2 = BASIC.replace("struct point { int x; int y; };", "struct point { int x; int z; int y; };").replace("BLUE };", "BLUE, BLACK };").replace("unsigned char f", "unsigned short f")

NESTED = r'''
struct inner { char tag; short s; };
struct outer {
  struct inner in;
  union { int i; float f; };
  struct { unsigned a:3; unsigned b:5; int :0; unsigned c:17; } bits;
  int arr[4];
  long matrix[2][3];
  int (*cb)(struct inner*, int);
  struct outer* next;
};
union value { long l; double d; char bytes[8]; };
typedef int (*handler_t)(union value*, const struct outer*);
handler_t g_handler;
struct outer g_outer;
int use_outer(struct outer* o, union value v) { return o->arr[0] + (int)v.l; }
int install(handler_t h) { g_handler = h; return 0; }
volatile int* vptr(volatile int* p) { return p; }
'''
NESTED2 = NESTED.replace("int arr[4];", "int arr[5];").replace("unsigned c:17;", "unsigned c:18;")

RECURSIVE = r'''
struct node;
struct list { struct node* head; unsigned count; };
struct node { struct node* next; struct list* owner; void* payload; };
struct a; struct b;
struct a { struct b* pb; int va; };
struct b { struct a* pa; struct a embedded; };
struct opaque;
struct list g_list;
struct node* push(struct list* l, struct node* n) { n->next = l->head; l->head = n; l->count++; return n; }
int walk(const struct a* x) { return x->pb->pa->va; }
struct opaque* get_opaque(struct opaque* o) { return o; }
'''
RECURSIVE2 = RECURSIVE.replace("struct node* next; struct list* owner;", "struct node* next; struct node* prev; struct list* owner;")

TU_A = r'''
struct shared { int a; long b; };
struct priv { char c; };            /* same name, different definition in the other unit */
static int helper(struct priv* p) { return p->c; }
int tu_a(struct shared* s) { struct priv p = {1}; return (int)s->a + helper(&p); }
struct priv g_priv_a;
'''
TU_B = r'''
struct shared { int a; long b; };
struct priv { double d; int e; };
int tu_b(struct shared* s, struct priv* p) { return (int)s->b + p->e; }
struct priv g_priv_b;
'''
TU_B2 = TU_B.replace("struct shared { int a; long b; };", "struct shared { int a; long b; };").replace("double d; int e;", "double d; int e; int f;")

SYMBOLS = r'''
#include <stdarg.h>
int base_fn(int x) { return x; }
int alias_fn(int) __attribute__((alias("base_fn")));
int weak_fn(int x) __attribute__((weak));
int weak_fn(int x) { return x + 1; }
__attribute__((visibility("hidden"))) int hidden_fn(int x) { return x; }
__attribute__((visibility("protected"))) int protected_fn(int x) { return x; }
static int static_fn(int x) { return x; }
int sum(int n, ...) { va_list ap; va_start(ap, n); int s = static_fn(n); va_end(ap); return s; }
int base_var = 1;
extern int alias_var __attribute__((alias("base_var")));
__thread int tls_var = 2;
int common_var;
int v1_fn(void) { return 1; }
int v2_fn(void) { return 2; }
__asm__(".symver v1_fn,vfn@VERS_1");
__asm__(".symver v2_fn,vfn@@VERS_2");
'''
SYMBOLS_MAP = "VERS_1 { global: *; };\nVERS_2 { global: *; } VERS_1;\n"
SYMBOLS2 = SYMBOLS.replace("int weak_fn(int x) __attribute__((weak));\nint weak_fn(int x) { return x + 1; }", "long weak_fn(long x) __attribute__((weak));\nlong weak_fn(long x) { return x + 1; }").replace("int common_var;", "long common_var;")

CXX = r'''
namespace ns {
struct Base { virtual ~Base() {} virtual int id() const { return 1; } int b; };
struct Mixin { char m; };
class Derived : public Base, protected Mixin {
 public:
  int id() const override { return 2; }
  virtual void extra(int) {}
  static int counter;
  int value;
 private:
  long secret;
};
int Derived::counter = 0;
template <typename T> struct Box { T v; T get() const { return v; } };
enum class Mode : unsigned char { A, B };
int use(const Derived& d, Box<int>* b, Mode m) { return d.id() + b->get() + (int)m; }
Box<double> g_box;
Derived* make() { return new Derived(); }
}
int plain(ns::Base* b, int& r, const int& cr) { return b->id() + r + cr; }
'''
CXX2 = CXX.replace("int value;", "int value; int value2;").replace("virtual void extra(int) {}", "virtual void extra(int) {}\n  virtual void more() {}")

CXX_ANON = r'''
struct S {
  union { int i; struct { short lo, hi; }; };
  enum { K0, K1 } kind;
  static const int N = 3;
  int data[3];
  int method(int x) const { return x + i; }
};
typedef S TS;
int take(TS s, S* p) { return s.method(1) + p->i; }
S g_s;
'''
CXX_ANON2 = CXX_ANON.replace("enum { K0, K1 } kind;", "enum { K0, K1, K2 } kind; char extra;")

SEEDS = {
    "basic": {"units": [("basic.c", BASIC)], "v2": [("basic.c", BASIC2)], "lang": "c", "link": []},
    "nested": {"units": [("nested.c", NESTED)], "v2": [("nested.c", NESTED2)], "lang": "c", "link": []},
    "recursive": {"units": [("recursive.c", RECURSIVE)], "v2": [("recursive.c", RECURSIVE2)], "lang": "c", "link": []},
    "two_tu": {"units": [("tu_a.c", TU_A), ("tu_b.c", TU_B)], "v2": [("tu_a.c", TU_A), ("tu_b.c", TU_B2)], "lang": "c", "link": []},
    "symbols": {"units": [("symbols.c", SYMBOLS)], "v2": [("symbols.c", SYMBOLS2)], "lang": "c",
                "link": ["-Wl,--version-script=symbols.map"], "extra": {"symbols.map": SYMBOLS_MAP}},
    "cxx": {"units": [("cxx.cc", CXX)], "v2": [("cxx.cc", CXX2)], "lang": "c++", "link": []},
    "cxx_anon": {"units": [("anon.cc", CXX_ANON)], "v2": [("anon.cc", CXX_ANON2)], "lang": "c++", "link": []},
}


def build(name, v2=False, cc="gcc", dwarf=None, extra_cflags=(), kind="shared", g=True):
    s = SEEDS[name]
    units = s["v2"] if v2 else s["units"]
    fl = (["-g"] if g else []) + (["-gdwarf-%d" % dwarf] if dwarf else []) + list(extra_cflags)
    if s["lang"] == "c++":
        fl = fl + ["-std=c++11"]
    out = "lib%s.so" % name if kind == "shared" else name + (".o" if kind == "reloc" else "")
    link = list(s["link"]) + (["-Wl,-soname,lib%s.so" % name] if kind == "shared" else [])
    return cbuild.compile_units([(f, src, fl) for f, src in units], link_flags=link, out_name=out, cc=cc, kind=kind,
                                extra_files=s.get("extra"), tag="seed1")


def all_names():
    return list(SEEDS)


def big_source(n=120):
    """A large C program (n structs + n functions) whose ABIXML crosses several stdio buffers."""
    parts = ["typedef unsigned long ul_t;\n"]
    for i in range(n):
        parts.append("struct big%d { int a%d; char b%d[%d]; struct big%d* next; ul_t v; };\n" % (i, i, i, (i % 7) + 1, max(i - 1, 0)))
        parts.append("int use_big%d(struct big%d* p, int x) { return p->a%d + x; }\n" % (i, i, i))
    return "".join(parts)


SEEDS["big"] = {"units": [("big.c", big_source())], "v2": [("big.c", big_source().replace("int a7;", "long a7;"))], "lang": "c", "link": []}
