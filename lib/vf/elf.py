"""Minimal ELF64 little-endian reader / patcher (independent of elfutils)."""
import struct

EHDR = "<16sHHIQQQIHHHHHH"
SHDR = "<IIQQQQIIQQ"
SYM = "<IBBHQQ"
EH_FIELDS = ["e_ident", "e_type", "e_machine", "e_version", "e_entry", "e_phoff", "e_shoff", "e_flags", "e_ehsize", "e_phentsize", "e_phnum", "e_shentsize", "e_shnum", "e_shstrndx"]
SH_FIELDS = ["sh_name", "sh_type", "sh_flags", "sh_addr", "sh_offset", "sh_size", "sh_link", "sh_info", "sh_addralign", "sh_entsize"]
SYM_FIELDS = ["st_name", "st_info", "st_other", "st_shndx", "st_value", "st_size"]
EH_OFF = dict(e_type=16, e_machine=18, e_version=20, e_entry=24, e_phoff=32, e_shoff=40, e_flags=48, e_ehsize=52, e_phentsize=54, e_phnum=56, e_shentsize=58, e_shnum=60, e_shstrndx=62)
EH_FMT = dict(e_type="<H", e_machine="<H", e_version="<I", e_entry="<Q", e_phoff="<Q", e_shoff="<Q", e_flags="<I", e_ehsize="<H", e_phentsize="<H", e_phnum="<H", e_shentsize="<H", e_shnum="<H", e_shstrndx="<H")
SH_OFF = dict(sh_name=(0, "<I"), sh_type=(4, "<I"), sh_flags=(8, "<Q"), sh_addr=(16, "<Q"), sh_offset=(24, "<Q"), sh_size=(32, "<Q"), sh_link=(40, "<I"), sh_info=(44, "<I"), sh_addralign=(48, "<Q"), sh_entsize=(56, "<Q"))
SYM_OFF = dict(st_name=(0, "<I"), st_info=(4, "<B"), st_other=(5, "<B"), st_shndx=(6, "<H"), st_value=(8, "<Q"), st_size=(16, "<Q"))


class Elf(object):
    def __init__(self, data):
        self.data = bytearray(data)
        self.eh = dict(zip(EH_FIELDS, struct.unpack_from(EHDR, self.data, 0)))
        self.sections = []
        sh = self.eh
        for i in range(sh["e_shnum"]):
            off = sh["e_shoff"] + i * sh["e_shentsize"]
            d = dict(zip(SH_FIELDS, struct.unpack_from(SHDR, self.data, off)))
            d["_off"] = off
            d["index"] = i
            self.sections.append(d)
        if self.sections and sh["e_shstrndx"] < len(self.sections):
            st = self.sections[sh["e_shstrndx"]]
            tab = bytes(self.data[st["sh_offset"]:st["sh_offset"] + st["sh_size"]])
            for s in self.sections:
                end = tab.find(b"\0", s["sh_name"])
                s["name"] = tab[s["sh_name"]:end].decode(errors="replace")

    def section(self, name):
        for s in self.sections:
            if s.get("name") == name:
                return s
        return None

    def section_data(self, s):
        return bytes(self.data[s["sh_offset"]:s["sh_offset"] + s["sh_size"]])

    def patch(self, off, fmt, value):
        size = struct.calcsize(fmt)
        mask = (1 << (8 * size)) - 1
        struct.pack_into(fmt, self.data, off, value & mask)


def sysv_hash(name):
    h = 0
    for c in name.encode():
        h = ((h << 4) + c) & 0xffffffff
        g = h & 0xf0000000
        if g:
            h ^= g >> 24
        h &= ~g & 0xffffffff
    return h


def gnu_hash(name):
    h = 5381
    for c in name.encode():
        h = (h * 33 + c) & 0xffffffff
    return h
