"""Parser for abidiff / abipkgdiff reports (default and leaf modes).

Returns a Report with the summary counters and, per section, the list of entries.
Unknown header-like lines make the parser fail loudly (FormatError) so that a change of
the report format cannot turn the oracles into vacuous checks."""
import re


class FormatError(Exception):
    pass


SUMMARY_RES = [
    ("functions", re.compile(r"^\s*Functions changes summary: (\d+) Removed(?: \((\d+) filtered out\))?, (\d+) Changed(?: \((\d+) filtered out\))?, (\d+) Added(?: \((\d+) filtered out\))? functions?$")),
    ("variables", re.compile(r"^\s*Variables changes summary: (\d+) Removed(?: \((\d+) filtered out\))?, (\d+) Changed(?: \((\d+) filtered out\))?, (\d+) Added(?: \((\d+) filtered out\))? variables?$")),
    ("function_symbols", re.compile(r"^\s*Function symbols changes summary: (\d+) Removed(?: \((\d+) filtered out\))?, (\d+) Added(?: \((\d+) filtered out\))? function symbols? not referenced by debug info$")),
    ("variable_symbols", re.compile(r"^\s*Variable symbols changes summary: (\d+) Removed(?: \((\d+) filtered out\))?, (\d+) Added(?: \((\d+) filtered out\))? variable symbols? not referenced by debug info$")),
    ("unreachable_types", re.compile(r"^\s*Unreachable types summary: (\d+) removed(?: \((\d+) filtered out\))?, (\d+) changed(?: \((\d+) filtered out\))?, (\d+) added(?: \((\d+) filtered out\))? types?$")),
    ("leaf", re.compile(r"^\s*Leaf changes summary: (\d+) artifacts? changed(?: \((\d+) filtered out\))?$")),
    ("leaf_functions", re.compile(r"^\s*Changed leaf types summary: (\d+)(?: \((\d+) filtered out\))? leaf types? changed$")),
    ("leaf_fn", re.compile(r"^\s*Removed/Changed/Added functions summary: (\d+) Removed(?: \((\d+) filtered out\))?, (\d+) Changed(?: \((\d+) filtered out\))?, (\d+) Added(?: \((\d+) filtered out\))? functions?(?: \((\d+) filtered out\))?$")),
    ("leaf_var", re.compile(r"^\s*Removed/Changed/Added variables summary: (\d+) Removed(?: \((\d+) filtered out\))?, (\d+) Changed(?: \((\d+) filtered out\))?, (\d+) Added(?: \((\d+) filtered out\))? variables?(?: \((\d+) filtered out\))?$")),
]

SECTION_RES = [
    ("removed_functions", re.compile(r"^\s*(\d+) Removed functions?:$")),
    ("added_functions", re.compile(r"^\s*(\d+) Added functions?:$")),
    ("changed_functions", re.compile(r"^\s*(\d+) functions? with (?:some |incompatible )?(?:indirect )?(?:sub-type )?changes?:$")),
    ("changed_functions", re.compile(r"^\s*(\d+) functions? with (?:some )?sub-type changes?:$")),
    ("removed_variables", re.compile(r"^\s*(\d+) Removed variables?:$")),
    ("added_variables", re.compile(r"^\s*(\d+) Added variables?:$")),
    ("changed_variables", re.compile(r"^\s*(\d+) Changed variables?:$")),
    ("removed_function_symbols", re.compile(r"^\s*(\d+) Removed function symbols? not referenced by debug info:$")),
    ("added_function_symbols", re.compile(r"^\s*(\d+) Added function symbols? not referenced by debug info:$")),
    ("removed_variable_symbols", re.compile(r"^\s*(\d+) Removed variable symbols? not referenced by debug info:$")),
    ("added_variable_symbols", re.compile(r"^\s*(\d+) Added variable symbols? not referenced by debug info:$")),
    ("removed_unreachable_types", re.compile(r"^\s*(\d+) removed types? unreachable from any public interface:$")),
    ("changed_unreachable_types", re.compile(r"^\s*(\d+) changed types? unreachable from any public interface:$")),
    ("added_unreachable_types", re.compile(r"^\s*(\d+) added types? unreachable from any public interface:$")),
]
ENTRY_RE = re.compile(r"^\s*\[([DAC])\] (.*)$")
LEAF_TYPE_RE = re.compile(r"^\s*'(.*?)' changed:$")
IMPACT_RE = re.compile(r"^\s*(?:(\d+)|one) impacted interfaces?:$")


class Report(object):
    def __init__(self):
        self.summary = {}        # name -> dict(removed, removed_filtered, changed, ...)
        self.sections = {}       # name -> {"count": n, "entries": [header line text]}
        self.leaf_types = []     # [(type name, [impacted interface lines])]
        self.raw = ""

    def entries(self, sec):
        return self.sections.get(sec, {"entries": []})["entries"]

    def names(self, sec, pattern=r"\b([A-Za-z_]\w*)\b"):
        out = []
        for e in self.entries(sec):
            out.append(e)
        return out


def parse(text):
    if isinstance(text, bytes):
        text = text.decode(errors="replace")
    r = Report()
    r.raw = text
    cur = None
    in_impact = None
    for line in text.splitlines():
        if not line.strip():
            continue
        matched = False
        for name, rx in SUMMARY_RES:
            m = rx.match(line)
            if m:
                g = [int(x) if x else 0 for x in m.groups()]
                if name in ("functions", "variables", "unreachable_types", "leaf_fn", "leaf_var"):
                    r.summary[name] = dict(removed=g[0], removed_filtered=g[1], changed=g[2], changed_filtered=g[3], added=g[4], added_filtered=g[5] or (g[6] if len(g) > 6 else 0))
                elif name in ("function_symbols", "variable_symbols"):
                    r.summary[name] = dict(removed=g[0], removed_filtered=g[1], added=g[2], added_filtered=g[3])
                else:
                    r.summary[name] = dict(changed=g[0], changed_filtered=g[1])
                matched = True
                break
        if matched:
            continue
        for name, rx in SECTION_RES:
            m = rx.match(line)
            if m:
                cur = name
                sec = r.sections.setdefault(name, {"count": 0, "entries": []})
                sec["count"] += int(m.group(1))
                matched = True
                in_impact = None
                break
        if matched:
            continue
        m = ENTRY_RE.match(line)
        if m:
            if in_impact is not None:
                continue     # [C]/[D] markers do not appear in impact lists; defensive
            if cur is None:
                raise FormatError("entry outside any section: %r" % line)
            r.sections[cur]["entries"].append(m.group(1) + " " + m.group(2))
            continue
        m = LEAF_TYPE_RE.match(line)
        if m and not line.startswith("      "):
            r.leaf_types.append([m.group(1), []])
            in_impact = None
            continue
        m = IMPACT_RE.match(line)
        if m and r.leaf_types:
            in_impact = r.leaf_types[-1][1]
            continue
        if in_impact is not None and (line.strip().startswith(("function ", "method ")) or re.match(r"^\s+\S.*\b\w+\b", line)):
            in_impact.append(line.strip())
            if not line.startswith("      "):
                in_impact = None
            continue
        # a header-looking line we do not know: fail loudly
        if re.match(r"^\s*\d+ (Removed|Added|Changed|removed|added|changed|functions?|variables?) .*:$", line) or re.match(r"^\s*\w[\w /-]* summary:", line):
            raise FormatError("unknown report header: %r" % line)
    return r


def listed_symbols(entries, rx=r"\b([fg]_\d+)\b"):
    """Names of generated interfaces mentioned in the header lines of entries."""
    out = []
    for e in entries:
        m = re.search(r"\{(\w[\w@.]*)\}", e)
        n = re.findall(rx, e)
        if n:
            out.append(n[0] if not m else (re.findall(rx, m.group(1)) or n)[0])
    return out
