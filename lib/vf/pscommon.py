"""Shared plumbing of the program-space checks: JSON specs <-> units, packs, tool runs."""
import os

from . import core, progspace as ps, report_parser, toolrun

ALPHA = dict((m[0], m) for m in ps.MEMBER_ALPHABET)
CODES = [m[0] for m in ps.MEMBER_ALPHABET]
_special = None


def unit_from_spec(spec):
    global _special
    if "sp" in spec:
        if _special is None:
            _special = ps.special_units()
        return _special[spec["sp"]].clone()
    return ps.make_unit(spec["k"], [ALPHA[c] for c in spec["m"]], spec["p"])


def all_specs(quick, kinds=("struct", "union")):
    """The node set.  quick: structs of <= 2 members over a 5-letter alphabet x 6 paths, unions of 2;
    thorough: structs of <= 3 members over the 8-letter alphabet x all paths, unions of <= 2."""
    import itertools
    specs = []
    if quick:
        codes, paths, nmax = ["c", "i", "l", "p", "b3"], ["byval", "ptr", "typedef", "fnptr", "member", "var"], 2
    else:
        codes, paths, nmax = CODES, ps.ACCESS_PATHS, 3
    for n in range(1, nmax + 1):
        for ms in itertools.product(codes, repeat=n):
            for p in paths:
                if n == 3 and p not in ("ptr", "byval", "var"):
                    continue
                specs.append({"k": "struct", "m": list(ms), "p": p})
    if "union" in kinds:
        for n in (2,):
            for ms in itertools.product(["c", "i", "l", "d", "p"], repeat=n):
                for p in (["ptr", "var"] if quick else ["ptr", "byval", "var", "member"]):
                    specs.append({"k": "union", "m": list(ms), "p": p})
    for k in range(len(ps.special_units())):
        specs.append({"sp": k})
    return specs


def edits(u, cls):
    if cls == "breaking":
        return [(l, v, x) for (l, v, x) in ps.breaking_edits(u)]
    if cls == "neutral":
        return [(l, v, "same") for (l, v) in ps.neutral_edits(u)]
    if cls == "harmless":
        return [(l, v, "harmless") for (l, v) in ps.harmless_edits(u)]
    raise ValueError(cls)


def edge_list(specs, cls):
    """All (spec, label) edges of a class."""
    out = []
    for s in specs:
        u = unit_from_spec(s)
        for l, v, x in edits(u, cls):
            out.append((s, l))
    return out


def build_pair(pack, cls, cc="gcc", flags=("-g",)):
    """pack: list of [spec, label]; returns (v1 path, v2 path, [(idx, unit1, unit2, expectation, spec, label)])."""
    us1, us2, info = [], [], []
    for idx, (spec, label) in enumerate(pack):
        u = unit_from_spec(spec)
        v, exp = None, None
        for l, vv, x in edits(u, cls):
            if l == label:
                v, exp = vv, x
                break
        if v is None:
            raise core.HarnessError("edit %s not applicable to %s" % (label, spec))
        u1, u2 = u.rename(str(idx)), v.rename(str(idx))
        us1.append((idx, u1))
        us2.append((idx, u2))
        info.append((idx, u1, u2, exp, spec, label))
    return ps.build_pack(us1, cc=cc, flags=flags), ps.build_pack(us2, cc=cc, flags=flags), info


def build_nodes(pack, cc="gcc", flags=("-g",), lang="c"):
    us = [(idx, unit_from_spec(spec).rename(str(idx))) for idx, spec in enumerate(pack)]
    return ps.build_pack(us, cc=cc, flags=flags, lang=lang), us


def abidiff(ctx, a, b, opts=(), variant="plain", fast=True, timeout=60):
    rc, out, err = toolrun.run_tool(ctx, variant, "abidiff", ["--no-default-suppression"] + list(opts) + [a, b], timeout=timeout, fast=fast)
    return rc, out.decode(errors="replace"), err.decode(errors="replace")


def names_in(report, sections, rx=r"\b([fg]_\d+)\b"):
    out = set()
    for s in sections:
        out.update(report_parser.listed_symbols(report.entries(s), rx))
    return out


def chunks(lst, n):
    return [lst[i:i + n] for i in range(0, len(lst), n)]


# ------------------------------------------------------------------ node binaries shared by C01-C04, C14, C20, C35, C40, C43
def node_binary_specs(quick):
    """JSON descriptions of the binaries that serve as nodes: packs of units x compiler x DWARF version,
    plus the hand-written seed programs (C and C++)."""
    from . import seeds
    specs = all_specs(quick)
    out = []
    packs = chunks(specs, 40)
    cfgs = [("gcc", None), ("clang", None)] if quick else [("gcc", None), ("gcc", 4), ("gcc", 5), ("clang", None), ("clang", 4), ("clang", 5)]
    for pi, p in enumerate(packs):
        for cc, dw in cfgs:
            if quick and cc == "clang" and pi % 3:
                continue
            out.append({"pack": p, "cc": cc, "dwarf": dw, "id": "pack%d-%s-dw%s" % (pi, cc, dw or "def")})
    for n in seeds.all_names():
        for cc, dw in cfgs:
            if n == "symbols" and cc == "clang":
                continue
            out.append({"seed": n, "cc": cc, "dwarf": dw, "id": "seed-%s-%s-dw%s" % (n, cc, dw or "def")})
    for n in ("basic", "symbols"):
        out.append({"seed": n, "cc": "gcc", "dwarf": None, "nodebug": True, "id": "seed-%s-nodebug" % n})
    return out


def node_binary(b):
    from . import seeds
    fl = ["-g"] + (["-gdwarf-%d" % b["dwarf"]] if b.get("dwarf") else [])
    if "seed" in b:
        return seeds.build(b["seed"], cc=b["cc"], dwarf=b.get("dwarf"), g=not b.get("nodebug"))
    return build_nodes(b["pack"], cc=b["cc"], flags=fl)[0]


def run(ctx, tool, args, variant="plain", stdin=None, timeout=60, fast=True):
    rc, out, err = toolrun.run_tool(ctx, variant, tool, list(args), timeout=timeout, stdin=stdin, fast=fast)
    return rc, out, err


# ------------------------------------------------------------------ mixed packs for the report-level properties (C08, C10-C13)
def mixed_packs(quick, size=24):
    """Packs mixing changed and removed interfaces (comparing them backwards also yields added ones)."""
    specs = all_specs(quick)
    edges = edge_list(specs, "breaking")
    if quick:
        edges = edges[::5]
    # interleave so that every pack holds removals as well as changes
    rem = [e for e in edges if e[1].startswith("remove-function") or e[1].startswith("remove-variable")]
    chg = [e for e in edges if e not in rem]
    packs = []
    ri = 0
    for c in chunks(chg, size - 4):
        extra = rem[ri:ri + 4]
        ri += 4
        packs.append(c + extra)
    return packs


def summary_consistency(rep):
    """List of (class, text) inconsistencies between the summary counters and the listed entries."""
    probs = []
    pairs = [("functions", "removed", "removed_functions"), ("functions", "changed", "changed_functions"), ("functions", "added", "added_functions"),
             ("variables", "removed", "removed_variables"), ("variables", "changed", "changed_variables"), ("variables", "added", "added_variables"),
             ("function_symbols", "removed", "removed_function_symbols"), ("function_symbols", "added", "added_function_symbols"),
             ("variable_symbols", "removed", "removed_variable_symbols"), ("variable_symbols", "added", "added_variable_symbols")]
    for sk, field, sec in pairs:
        if sk not in rep.summary:
            continue
        net = rep.summary[sk][field]
        listed = len(rep.entries(sec))
        hdr = rep.sections.get(sec, {"count": 0})["count"]
        if net != listed:
            probs.append(("%s-%s" % (sk, field), "summary says %d %s %s, %d entries are listed" % (net, field, sk, listed)))
        if hdr != listed:
            probs.append(("%s-%s-header" % (sk, field), "section header says %d, %d entries are listed" % (hdr, listed)))
        if net > 10 ** 6 or rep.summary[sk].get(field + "_filtered", 0) > 10 ** 6:
            probs.append(("%s-%s-wrap" % (sk, field), "absurd count %d (filtered %d)" % (net, rep.summary[sk].get(field + "_filtered", 0))))
    return probs
