"""Out-of-tree build of libabigail from the current working tree of the repository.

Every check starts here: the library objects, the six tools and any probe /
harness are compiled from $VERIF_REPO (default /repo) into
/verif/build/trees/<tree-hash>/<variant>/.  Objects are cached by content
(variant flags + translation unit + every header), so an unchanged tree costs
nothing and an edited .cc costs one compile + the links.
"""
import concurrent.futures
import fcntl
import hashlib
import os
import shutil
import subprocess
import sys
import time

VERIF = os.path.dirname(os.path.dirname(os.path.dirname(os.path.abspath(__file__))))
REPO = os.environ.get("VERIF_REPO", "/repo")
BUILD = os.path.join(VERIF, "build")
OBJCACHE = os.path.join(BUILD, "objcache")
TREES = os.path.join(BUILD, "trees")
FALLBACK = os.path.join(VERIF, "lib", "vf", "fallback")

LIB_SOURCES = [
    "abg-ir.cc", "abg-dwarf-reader.cc", "abg-comparison.cc", "abg-reader.cc",
    "abg-suppression.cc", "abg-writer.cc", "abg-corpus.cc", "abg-tools-utils.cc",
    "abg-default-reporter.cc", "abg-leaf-reporter.cc", "abg-reporter-priv.cc",
    "abg-comp-filter.cc", "abg-symtab-reader.cc", "abg-elf-helpers.cc",
    "abg-elf-reader-common.cc", "abg-hash.cc", "abg-ini.cc", "abg-libxml-utils.cc",
    "abg-regex.cc", "abg-traverse.cc", "abg-diff-utils.cc", "abg-config.cc",
    "abg-workers.cc", "abg-viz-common.cc", "abg-viz-dot.cc", "abg-viz-svg.cc",
]
TOOLS = {
    "abidw": "abidw.cc", "abidiff": "abidiff.cc", "abilint": "abilint.cc",
    "abicompat": "abicompat.cc", "abipkgdiff": "abipkgdiff.cc", "abisym": "abisym.cc",
    "kmidiff": "kmidiff.cc",
}
LIBS = ["-lxml2", "-lelf", "-ldw", "-lpthread"]

VARIANTS = {
    "plain": {"cxx": "g++", "flags": ["-O1", "-g0"], "ld": []},
    "asan": {"cxx": "g++",
             "flags": ["-O1", "-g1", "-fno-omit-frame-pointer",
                       "-fsanitize=address,undefined",
                       "-fno-sanitize-recover=undefined"],
             "ld": ["-fsanitize=address,undefined"]},
    "debugtc": {"cxx": "g++",
                "flags": ["-O1", "-g0", "-DWITH_DEBUG_TYPE_CANONICALIZATION",
                          "-DWITH_DEBUG_SELF_COMPARISON"], "ld": []},
    "tsan": {"cxx": "g++", "flags": ["-O1", "-g1", "-fsanitize=thread"],
             "ld": ["-fsanitize=thread"]},
}


def repo_file(rel):
    p = os.path.join(REPO, rel)
    if os.path.exists(p):
        return p
    # generated files missing (e.g. a bare git worktree): fall back to vendored copies
    q = os.path.join(FALLBACK, os.path.basename(rel))
    if os.path.exists(q):
        return q
    raise FileNotFoundError(p)


def _gen_include_dir():
    """Directory holding config.h / abg-version.h when the tree lacks them."""
    need = []
    if not os.path.exists(os.path.join(REPO, "config.h")):
        need.append("config.h")
    if not os.path.exists(os.path.join(REPO, "include", "abg-version.h")):
        need.append("abg-version.h")
    return FALLBACK if need else None


def common_flags():
    fl = ["-DHAVE_CONFIG_H", '-DABIGAIL_ROOT_SYSTEM_LIBDIR="/usr/local/lib"',
          "-I/usr/include/libxml2", "-I" + REPO, "-I" + REPO + "/include",
          "-I" + REPO + "/src", "-I" + REPO + "/tools",
          "-fvisibility=hidden", "-std=c++11", "-w", "-fPIC"]
    g = _gen_include_dir()
    if g:
        fl.append("-I" + g)
    return fl


def _sha(*parts):
    h = hashlib.sha256()
    for p in parts:
        if isinstance(p, str):
            p = p.encode()
        h.update(p)
        h.update(b"\0")
    return h.hexdigest()


def _read(p):
    with open(p, "rb") as f:
        return f.read()


_headers_hash_cache = {}


def headers_hash():
    if REPO in _headers_hash_cache:
        return _headers_hash_cache[REPO]
    h = hashlib.sha256()
    files = []
    for d in ("include", "src", "tools"):
        dd = os.path.join(REPO, d)
        for fn in sorted(os.listdir(dd)):
            if fn.endswith(".h"):
                files.append(os.path.join(dd, fn))
    files.append(repo_file("config.h"))
    if not os.path.exists(os.path.join(REPO, "include", "abg-version.h")):
        files.append(repo_file("include/abg-version.h"))
    for f in files:
        h.update(os.path.basename(f).encode())
        h.update(_read(f))
    _headers_hash_cache[REPO] = h.hexdigest()
    return _headers_hash_cache[REPO]


_tree_hash_cache = {}


def tree_hash():
    """Hash of every input of the build; computed once per process (a check sees one
    state of the tree: the one present when it started)."""
    if REPO in _tree_hash_cache:
        return _tree_hash_cache[REPO]
    _tree_hash_cache[REPO] = _tree_hash()
    return _tree_hash_cache[REPO]


def _tree_hash():
    h = hashlib.sha256()
    h.update(headers_hash().encode())
    for s in LIB_SOURCES:
        h.update(_read(os.path.join(REPO, "src", s)))
    for t in sorted(TOOLS.values()):
        h.update(_read(os.path.join(REPO, "tools", t)))
    return h.hexdigest()[:20]


def _run(cmd, **kw):
    r = subprocess.run(cmd, stdout=subprocess.PIPE, stderr=subprocess.STDOUT, **kw)
    if r.returncode != 0:
        sys.stderr.write("BUILD FAILED: %s\n%s\n" % (" ".join(cmd), r.stdout.decode(errors="replace")[-6000:]))
        raise BuildError(" ".join(cmd))
    return r


class BuildError(Exception):
    pass


def compile_obj(cxx, flags, src, extra_key=""):
    """Compile src with flags; return path to cached object."""
    os.makedirs(OBJCACHE, exist_ok=True)
    key = _sha(cxx, " ".join(flags), _read(src), headers_hash(), extra_key, REPO)
    obj = os.path.join(OBJCACHE, key + ".o")
    if os.path.exists(obj):
        try:
            os.utime(obj, None)
        except OSError:
            pass
        return obj
    tmp = obj + ".%d.tmp" % os.getpid()
    _run([cxx] + flags + ["-c", src, "-o", tmp])
    os.rename(tmp, obj)
    return obj


def variant_dir(variant):
    return os.path.join(TREES, tree_hash(), variant)


def build(variant="plain", tools=None, quiet=False):
    """Build library + tools of one variant; returns the directory."""
    v = VARIANTS[variant]
    out = variant_dir(variant)
    stamp = os.path.join(out, ".done")
    if os.path.exists(stamp):
        try:
            os.utime(os.path.dirname(out), None)     # "in use": keeps prune_trees away from it
        except OSError:
            pass
        return out
    os.makedirs(out, exist_ok=True)
    lock = open(os.path.join(out, ".lock"), "w")
    fcntl.flock(lock, fcntl.LOCK_EX)
    try:
        if os.path.exists(stamp):
            return out
        t0 = time.time()
        flags = common_flags() + v["flags"]
        jobs = [os.path.join(REPO, "src", s) for s in LIB_SOURCES]
        tjobs = [(n, os.path.join(REPO, "tools", s)) for n, s in TOOLS.items()]
        with concurrent.futures.ThreadPoolExecutor(max_workers=os.cpu_count() or 4) as ex:
            fl = [ex.submit(compile_obj, v["cxx"], flags, s) for s in jobs]
            ft = [(n, ex.submit(compile_obj, v["cxx"], flags, s)) for n, s in tjobs]
            objs = [f.result() for f in fl]
            tobjs = [(n, f.result()) for n, f in ft]
        lib = os.path.join(out, "libabigail.a")
        if os.path.exists(lib):
            os.unlink(lib)
        _run(["ar", "rcs", lib] + objs)
        with concurrent.futures.ThreadPoolExecutor(max_workers=8) as ex:
            fs = [ex.submit(_run, [v["cxx"]] + v["ld"] + [o, lib] + LIBS + ["-o", os.path.join(out, n)])
                  for n, o in tobjs]
            for f in fs:
                f.result()
        with open(stamp, "w") as f:
            f.write("%s %.1fs\n" % (variant, time.time() - t0))
        if not quiet:
            sys.stderr.write("[vf build] %s built in %.1fs -> %s\n" % (variant, time.time() - t0, out))
        prune_trees()
        return out
    finally:
        fcntl.flock(lock, fcntl.LOCK_UN)
        lock.close()


def build_probe(variant, src, name=None, extra_flags=(), extra_srcs=(), extra_ld=(),
                cxx=None, no_lib=False):
    """Compile a harness/probe translation unit against the tree and link it
    with the variant's libabigail.a.  Returns the executable path."""
    v = VARIANTS[variant]
    out = build(variant)
    cxx = cxx or v["cxx"]
    flags = common_flags() + v["flags"] + list(extra_flags)
    name = name or os.path.splitext(os.path.basename(src))[0]
    srcs = [src] + list(extra_srcs)
    objs = [compile_obj(cxx, flags, s, extra_key=name) for s in srcs]
    key = _sha(*objs, " ".join(extra_ld), variant)[:12]
    exe = os.path.join(out, "%s.%s" % (name, key))
    if os.path.exists(exe):
        return exe
    tmp = exe + ".%d.tmp" % os.getpid()
    _run([cxx] + v["ld"] + objs + ([] if no_lib else [os.path.join(out, "libabigail.a")])
         + LIBS + list(extra_ld) + ["-o", tmp])
    os.rename(tmp, exe)
    return exe


def build_server(variant, name):
    """Fork server for one tool: tools/<name>.cc compiled with -Dmain=tool_main and
    linked with harness/forksrv.cc and the variant's library."""
    v = VARIANTS[variant]
    out = build(variant)
    exe = os.path.join(out, name + ".srv")
    stamp = exe + ".key"
    srv_src = os.path.join(VERIF, "harness", "forksrv.cc")
    key = _sha(_read(srv_src), variant)[:16]
    if os.path.exists(exe) and os.path.exists(stamp) and open(stamp).read() == key:
        return exe
    lock = open(os.path.join(out, ".lock.srv." + name), "w")
    fcntl.flock(lock, fcntl.LOCK_EX)
    try:
        if os.path.exists(exe) and os.path.exists(stamp) and open(stamp).read() == key:
            return exe
        flags = common_flags() + v["flags"]
        tobj = compile_obj(v["cxx"], flags + ["-Dmain=tool_main"], os.path.join(REPO, "tools", TOOLS[name]), extra_key="srv")
        sobj = compile_obj(v["cxx"], ["-O1", "-std=c++11", "-w"] + [f for f in v["flags"] if f.startswith("-fsanitize")], srv_src, extra_key="srv")
        tmp = exe + ".%d.tmp" % os.getpid()
        _run([v["cxx"]] + v["ld"] + [sobj, tobj, os.path.join(out, "libabigail.a")] + LIBS + ["-o", tmp])
        os.rename(tmp, exe)
        with open(stamp, "w") as f:
            f.write(key)
        return exe
    finally:
        fcntl.flock(lock, fcntl.LOCK_UN)
        lock.close()


def prune_trees(keep=6, min_age=6 * 3600):
    """Drop old tool trees: never one of the `keep` most recent, never one used in the last `min_age` seconds
    (another check may still be running from it)."""
    try:
        ds = [os.path.join(TREES, d) for d in os.listdir(TREES)]
        ds.sort(key=lambda d: os.path.getmtime(d), reverse=True)
        now = time.time()
        for d in ds[keep:]:
            if now - os.path.getmtime(d) > min_age:
                shutil.rmtree(d, ignore_errors=True)
        # bound the object cache: drop objects not used for 2 days when large
        objs = [os.path.join(OBJCACHE, f) for f in os.listdir(OBJCACHE)]
        if len(objs) > 1500:
            objs.sort(key=lambda f: os.path.getmtime(f))
            for f in objs[:len(objs) - 1000]:
                try:
                    os.unlink(f)
                except OSError:
                    pass
    except OSError:
        pass


def tool(variant, name):
    return os.path.join(build(variant), name)


if __name__ == "__main__":
    for var in (sys.argv[1:] or ["plain"]):
        print(build(var))
