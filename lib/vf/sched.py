"""Build helpers for the controlled-scheduler harnesses (engine E1)."""
import os
from . import build

VS = os.path.join(build.VERIF, "engines", "vsched")
HARNESS = os.path.join(build.VERIF, "harness")


def vsched_obj():
    return build.compile_obj("g++", ["-O1", "-g0", "-std=c++11", "-w", "-I" + VS], os.path.join(VS, "vsched.cc"),
                             extra_key=build._sha(build._read(os.path.join(VS, "vsched.h"))))


def build_wq_harness():
    """harness/wq_harness.cc (textually includes the repository's src/abg-workers.cc) + vsched."""
    out = build.build("plain")   # only for the tree directory / lock discipline
    flags = build.common_flags() + ["-O1", "-g0", "-fno-access-control", "-include", os.path.join(VS, "vsched_shim.h"),
                                    "-I" + VS, "-I" + HARNESS]
    # the harness TU depends on the content of abg-workers.cc: put it in the cache key
    wk = build._sha(build._read(os.path.join(build.REPO, "src", "abg-workers.cc")), build._read(os.path.join(VS, "explore.h")),
                    build._read(os.path.join(VS, "vsched.h")), build._read(os.path.join(VS, "vsched_shim.h")))
    hobj = build.compile_obj("g++", flags, os.path.join(HARNESS, "wq_harness.cc"), extra_key="wq" + wk)
    sobj = vsched_obj()
    key = build._sha(hobj, sobj)[:12]
    exe = os.path.join(out, "wq_harness." + key)
    if not os.path.exists(exe):
        tmp = exe + ".%d.tmp" % os.getpid()
        build._run(["g++", hobj, sobj, "-lpthread", "-o", tmp])
        os.rename(tmp, exe)
    return exe
