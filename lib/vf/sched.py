"""Build helpers for the controlled-scheduler harnesses (engine E1)."""
import os
from . import build

VS = os.path.join(build.VERIF, "engines", "vsched")
HARNESS = os.path.join(build.VERIF, "harness")


def vsched_obj():
    return build.compile_obj("g++", ["-O1", "-g0", "-std=c++11", "-w", "-I" + VS], os.path.join(VS, "vsched.cc"),
                             extra_key=build._sha(build._read(os.path.join(VS, "vsched.h"))))


def build_wq_harness():
    """harness/wq_harness.cc (textually includes the repository's src/abg-workers.cc) + vsched."""
    out = build.build("plain")   # only for the tree directory / lock discipline
    flags = build.common_flags() + ["-O1", "-g0", "-fno-access-control", "-include", os.path.join(VS, "vsched_shim.h"),
                                    "-I" + VS, "-I" + HARNESS]
    # the harness TU depends on the content of abg-workers.cc: put it in the cache key
    wk = build._sha(build._read(os.path.join(build.REPO, "src", "abg-workers.cc")), build._read(os.path.join(VS, "explore.h")),
                    build._read(os.path.join(VS, "vsched.h")), build._read(os.path.join(VS, "vsched_shim.h")))
    hobj = build.compile_obj("g++", flags, os.path.join(HARNESS, "wq_harness.cc"), extra_key="wq" + wk)
    sobj = vsched_obj()
    key = build._sha(hobj, sobj)[:12]
    exe = os.path.join(out, "wq_harness." + key)
    if not os.path.exists(exe):
        tmp = exe + ".%d.tmp" % os.getpid()
        build._run(["g++", hobj, sobj, "-lpthread", "-o", tmp])
        os.rename(tmp, exe)
    return exe


def build_pkgdiff_harness():
    """The real tools/abipkgdiff.cc and src/abg-workers.cc compiled with the pthread shim
    (-Dmain=abipkgdiff_main), linked with vsched, the harness and the plain library."""
    out = build.build("plain")
    shim = ["-include", os.path.join(VS, "vsched_shim.h")]
    flags = build.common_flags() + ["-O1", "-g0"]
    shim_key = build._sha(build._read(os.path.join(VS, "vsched_shim.h")))
    tobj = build.compile_obj("g++", flags + shim + ["-Dmain=abipkgdiff_main"], os.path.join(build.REPO, "tools", "abipkgdiff.cc"), extra_key="sched" + shim_key)
    wobj = build.compile_obj("g++", flags + shim, os.path.join(build.REPO, "src", "abg-workers.cc"), extra_key="sched" + shim_key)
    hk = build._sha(build._read(os.path.join(VS, "explore.h")), build._read(os.path.join(VS, "vsched.h")))
    hobj = build.compile_obj("g++", ["-O1", "-g0", "-std=c++11", "-w", "-I" + VS, "-I" + HARNESS], os.path.join(HARNESS, "pkgdiff_harness.cc"), extra_key="pk" + hk)
    sobj = vsched_obj()
    key = build._sha(tobj, wobj, hobj, sobj)[:12]
    exe = os.path.join(out, "pkgdiff_harness." + key)
    if not os.path.exists(exe):
        tmp = exe + ".%d.tmp" % os.getpid()
        build._run(["g++", hobj, tobj, wobj, sobj, os.path.join(out, "libabigail.a")] + build.LIBS + ["-o", tmp])
        os.rename(tmp, exe)
    return exe
