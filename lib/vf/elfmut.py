"""Structured single-field corruptions of a valid ELF64 file (engine of C34).

Every mutation is (operator class, site, mutated bytes).  The catalogue is a function of the input
file only (deterministic order), so a (class, site) pair names one mutant exactly."""
import struct

from . import elf as elfmod

U16, U32, U64 = 0xffff, 0xffffffff, 0xffffffffffffffff


def _values(fmt, cur, fsize, extra=()):
    mx = {"<B": 0xff, "<H": U16, "<I": U32, "<Q": U64}[fmt]
    vals = [0, 1, cur + 1, cur - 1 if cur else 2, mx, mx >> 1, fsize, fsize - 1] + list(extra)
    out = []
    for v in vals:
        v &= mx
        if v != cur and v not in out:
            out.append(v)
    return out


def _patched(data, off, fmt, v):
    b = bytearray(data)
    struct.pack_into(fmt, b, off, v)
    return bytes(b)


def catalogue(data, dwarf_stride=1, sym_limit=None):
    e = elfmod.Elf(data)
    fsize = len(data)
    # 1. ELF header
    for f in ("e_type", "e_machine", "e_version", "e_phoff", "e_shoff", "e_ehsize", "e_phentsize", "e_phnum", "e_shentsize", "e_shnum", "e_shstrndx"):
        off, fmt = elfmod.EH_OFF[f], elfmod.EH_FMT[f]
        cur = struct.unpack_from(fmt, data, off)[0]
        for v in _values(fmt, cur, fsize):
            yield ("ehdr-" + f, "%s=%#x" % (f, v), _patched(data, off, fmt, v))
    for off in (4, 5, 6):
        for v in (0, 1, 2, 3, 0xff):
            if data[off] != v:
                yield ("e_ident", "ident[%d]=%d" % (off, v), _patched(data, off, "<B", v))
    # 2. section headers
    for s in e.sections:
        for f, (fo, fmt) in elfmod.SH_OFF.items():
            if f in ("sh_addr", "sh_flags", "sh_addralign"):
                vals = [0, 1, U64 if fmt == "<Q" else U32]
            else:
                vals = None
            cur = s[f]
            for v in (vals if vals is not None else _values(fmt, cur, fsize, extra=(len(e.sections), len(e.sections) - 1, s["sh_size"] + s["sh_offset"]))):
                if v == cur:
                    continue
                yield ("shdr-%s-%s" % (f, _secclass(s.get("name", ""))), "%s[%d].%s=%#x" % (s.get("name", "?"), s["index"], f, v), _patched(data, s["_off"] + fo, fmt, v))
    # 3. symbol tables
    for tab in (".dynsym", ".symtab"):
        s = e.section(tab)
        if not s or not s["sh_entsize"]:
            continue
        n = s["sh_size"] // s["sh_entsize"]
        idxs = range(n) if sym_limit is None or tab == ".dynsym" else list(range(0, n, max(1, n // sym_limit)))
        for i in idxs:
            base = s["sh_offset"] + i * s["sh_entsize"]
            for f, (fo, fmt) in elfmod.SYM_OFF.items():
                cur = struct.unpack_from(fmt, data, base + fo)[0]
                if f == "st_info":
                    vals = [0x00, 0x10, 0x12, 0x11, 0x16, 0x1a, 0x22, 0xff, 0x0f, 0xf0, 0xf2, 0x31, 0xa2, 0x1f]
                elif f == "st_other":
                    vals = [0, 1, 2, 3, 0xff]
                elif f == "st_shndx":
                    vals = [0, 1, len(e.sections) - 1, len(e.sections), 0xfff1, 0xfff2, 0xffff, 0xff00]
                else:
                    vals = _values(fmt, cur, fsize)
                for v in vals:
                    if v != cur:
                        yield ("sym-%s-%s" % (tab[1:], f), "%s[%d].%s=%#x" % (tab, i, f, v), _patched(data, base + fo, fmt, v))
    # 4. hash tables
    s = e.section(".hash")
    if s:
        words = s["sh_size"] // 4
        for w in range(words):
            off = s["sh_offset"] + 4 * w
            cur = struct.unpack_from("<I", data, off)[0]
            kind = "nbucket" if w == 0 else "nchain" if w == 1 else "entry"
            for v in _values("<I", cur, fsize, extra=(words, words + 1, 0x80000000)):
                yield ("sysv-hash-" + kind, ".hash[%d]=%#x" % (w, v), _patched(data, off, "<I", v))
    s = e.section(".gnu.hash")
    if s:
        nb, symoff, bloomsz, shift = struct.unpack_from("<IIII", data, s["sh_offset"])
        for w, nm in enumerate(("nbuckets", "symoffset", "bloom_size", "bloom_shift")):
            off = s["sh_offset"] + 4 * w
            cur = struct.unpack_from("<I", data, off)[0]
            for v in _values("<I", cur, fsize, extra=(0x80000000, 31, 32, 64)):
                yield ("gnu-hash-" + nm, ".gnu.hash.%s=%#x" % (nm, v), _patched(data, off, "<I", v))
        boff = s["sh_offset"] + 16
        for w in range(bloomsz):
            off = boff + 8 * w
            if off + 8 > s["sh_offset"] + s["sh_size"]:
                break
            for v in (0, U64):
                if struct.unpack_from("<Q", data, off)[0] != v:
                    yield ("gnu-hash-bloom", ".gnu.hash.bloom[%d]=%#x" % (w, v), _patched(data, off, "<Q", v))
        woff = boff + 8 * bloomsz
        words = (s["sh_offset"] + s["sh_size"] - woff) // 4
        for w in range(words):
            off = woff + 4 * w
            cur = struct.unpack_from("<I", data, off)[0]
            kind = "bucket" if w < nb else "chain"
            for v in _values("<I", cur, fsize, extra=(cur ^ 1, cur | 1, cur & ~1, 0x80000000)):
                yield ("gnu-hash-" + kind, ".gnu.hash.%s[%d]=%#x" % (kind, w if w < nb else w - nb, v), _patched(data, off, "<I", v))
    # 5. symbol versioning
    s = e.section(".gnu.version")
    if s:
        for i in range(s["sh_size"] // 2):
            off = s["sh_offset"] + 2 * i
            cur = struct.unpack_from("<H", data, off)[0]
            for v in (0, 1, 2, 3, 4, 5, 0x7fff, 0x8000, 0x8002, 0xffff, 0x00ff):
                if v != cur:
                    yield ("versym", ".gnu.version[%d]=%#x" % (i, v), _patched(data, off, "<H", v))
    for name in (".gnu.version_d", ".gnu.version_r"):
        s = e.section(name)
        if s:
            for w in range(s["sh_size"] // 2):
                off = s["sh_offset"] + 2 * w
                cur = struct.unpack_from("<H", data, off)[0]
                for v in (0, 1, 2, 0x10, 0x7fff, 0xffff, cur + 1):
                    v &= U16
                    if v != cur:
                        yield ("verdef" if name.endswith("_d") else "verneed", "%s.half[%d]=%#x" % (name, w, v), _patched(data, off, "<H", v))
    # 6. dynamic section
    s = e.section(".dynamic")
    if s:
        for i in range(s["sh_size"] // 16):
            off = s["sh_offset"] + 16 * i
            tag, val = struct.unpack_from("<QQ", data, off)
            for v in (0, 1, 5, 6, 14, 0x6ffffef5, 0x6ffffff0, 0x6ffffffc, 0x6ffffffe, U64):
                if v != tag:
                    yield ("dynamic-tag", ".dynamic[%d].tag=%#x" % (i, v), _patched(data, off, "<Q", v))
            for v in _values("<Q", val, fsize):
                yield ("dynamic-val", ".dynamic[%d].val=%#x" % (i, v), _patched(data, off + 8, "<Q", v))
    # 7. debug sections, byte level
    for name in (".debug_abbrev", ".debug_info", ".debug_line", ".debug_str", ".debug_line_str", ".debug_str_offsets", ".debug_addr", ".debug_aranges", ".debug_rnglists", ".debug_loclists", ".debug_types"):
        s = e.section(name)
        if not s or s["sh_type"] == 8:
            continue
        limit = s["sh_size"] if name in (".debug_abbrev", ".debug_info", ".debug_types", ".debug_str_offsets") else min(s["sh_size"], 96)
        for p in range(0, limit, dwarf_stride):
            off = s["sh_offset"] + p
            cur = data[off]
            for v in sorted(set([0, 0xff, (cur + 1) & 0xff, cur ^ 0x80, 0x7f])):
                if v != cur:
                    yield ("dwarf-byte-" + name[7:], "%s+%d=%#x" % (name, p, v), _patched(data, off, "<B", v))
    # 8. truncations at section boundaries
    cuts = sorted(set([s["sh_offset"] for s in e.sections if s["sh_offset"]] + [e.eh["e_shoff"], e.eh["e_shoff"] + 64, fsize - 1, 64, 63, 1]))
    for c in cuts:
        if 0 < c < fsize:
            yield ("truncate", "size=%d" % c, bytes(data[:c]))


def _secclass(name):
    if name.startswith(".debug"):
        return "debug"
    if name in (".dynsym", ".symtab", ".dynstr", ".strtab", ".shstrtab"):
        return "symtab"
    if name in (".hash", ".gnu.hash"):
        return "hash"
    if name.startswith(".gnu.version"):
        return "version"
    if name in (".dynamic",):
        return "dynamic"
    if name.startswith(".rela") or name.startswith(".rel"):
        return "reloc"
    return "other"
