"""Running libabigail tools and classifying abnormal terminations."""
import os
import re
import signal

from . import build, core

SAN_ENV = {
    "ASAN_OPTIONS": "detect_leaks=0:exitcode=99:abort_on_error=0:allocator_may_return_null=1:symbolize=1:fast_unwind_on_malloc=1:malloc_context_size=5:handle_abort=1",
    "UBSAN_OPTIONS": "print_stacktrace=1:halt_on_error=1:exitcode=98",
    "ASAN_SYMBOLIZER_PATH": "/usr/bin/llvm-symbolizer",
}

_frame_re = re.compile(r"#\d+ 0x[0-9a-f]+ in (\S+)(?: (\S+))?")
_assert_re = re.compile(r"(\S+): (\S+?):(\d+): (.*?): Assertion")
_notreached_re = re.compile(r"in (\w+) at: \S+?:\d+: execution should not have reached")
THIRD = ("libelf", "libdw", "libxml2", "libz", "liblzma", "libbz2")


def tool(variant, name):
    return os.path.join(build.build(variant), name)


def classify(rc, err):
    """Returns None when the process ended normally, else (outcome, site, owner).
    owner: 'libabigail' | 'third_party' | 'unknown'."""
    if isinstance(err, bytes):
        err = err.decode(errors="replace")
    if rc == "timeout":
        return ("hang", "timeout", "libabigail")
    outcome = None
    if rc == 99 or "ERROR: AddressSanitizer" in err:
        m = re.search(r"AddressSanitizer: ([\w-]+)", err)
        outcome = "asan:" + (m.group(1) if m else "error")
        if outcome == "asan:ABRT":
            outcome = "abort"          # handle_abort=1 only serves to get the stack of an abort()
    elif rc == 98 or "runtime error:" in err:
        outcome = "ubsan"
    elif isinstance(rc, int) and rc < 0:
        s = -rc
        if s == signal.SIGABRT:
            outcome = "abort"
        elif s == signal.SIGSEGV:
            outcome = "segv"
        else:
            outcome = "signal%d" % s
    elif rc == 134:
        outcome = "abort"
    elif rc == 139:
        outcome = "segv"
    if outcome is None:
        return None
    site, owner = "unknown", "unknown"
    if outcome == "asan:stack-overflow":
        # unbounded recursion: the innermost frame is arbitrary, so it cannot identify the site
        return (outcome, "unbounded-recursion", "libabigail")
    m = _notreached_re.search(err)
    if outcome == "abort" and m:
        return (outcome, "notreached:" + m.group(1), "libabigail")
    m = _assert_re.search(err)
    if outcome == "abort" and m:
        fn = m.group(4)
        fm = re.search(r"([\w:~]+)\(", fn)
        site = "assert:" + (fm.group(1).split("::")[-1] if fm else os.path.basename(m.group(2)))
        return (outcome, site, "libabigail")
    for line in err.splitlines():
        fm = _frame_re.search(line)
        if not fm:
            continue
        fn, loc = fm.group(1), fm.group(2) or ""
        if fn.startswith(("__asan", "__interceptor", "__sanitizer", "__ubsan", "operator new", "operator delete", "malloc", "free", "calloc", "realloc")):
            continue
        if any(t in loc for t in THIRD) or any(t in line for t in THIRD):
            site, owner = fn, "third_party"
            break
        if "/repo/" in loc or "abigail" in fn or "/verif/" in loc or loc.startswith(("src/", "tools/", "include/")) or re.search(r"abg-[\w-]+\.(cc|h)", loc):
            site, owner = fn.split("(")[0].split("::")[-1], "libabigail"
            break
        if fn in ("memcpy", "memmove", "strlen", "strcmp", "memcmp", "__libc_start_main", "__libc_start_call_main"):
            continue
        # a frame in libc / libstdc++: keep looking for who called it
    if owner == "unknown" and outcome in ("segv", "abort") :
        owner = "libabigail"   # no trace available (plain build): attributed to the tool
    return (outcome, site, owner)


class ServerDied(Exception):
    pass


class ToolServer(object):
    """Client side of harness/forksrv.cc (one persistent process per (variant, tool) per worker)."""

    def __init__(self, ctx, variant, name):
        import subprocess
        self.name = name
        self.count = 0
        self.exe = build.build_server(variant, name)
        env = ctx.env(**SAN_ENV)
        self.p = subprocess.Popen([self.exe], stdin=subprocess.PIPE, stdout=subprocess.PIPE, stderr=subprocess.DEVNULL,
                                  env=env, cwd=ctx.scratch)

    @staticmethod
    def _f(b):
        if isinstance(b, str):
            b = b.encode("utf-8", "surrogateescape")
        return b"%d\n" % len(b) + b

    def request(self, args, timeout=30, stdin=None, cwd=None, env=None, fsize=-1, stdout="pipe", inproc=False):
        av = [self.name] + [a for a in args]
        self.count += 1
        msg = [b"I\n" if inproc else b"R\n", b"%d\n" % len(av)] + [self._f(a) for a in av]
        msg.append(self._f(cwd or ""))
        msg.append(self._f(stdin or b""))
        envs = ["%s=%s" % kv for kv in (env or {}).items()]
        msg.append(b"%d\n" % len(envs))
        msg += [self._f(e) for e in envs]
        msg.append(b"%d\n%d\n" % (int(timeout * 1000), fsize))
        msg.append(self._f(stdout))
        self.p.stdin.write(b"".join(msg))
        self.p.stdin.flush()
        hdr = self.p.stdout.readline()
        if not hdr:
            if inproc:
                raise ServerDied()
            raise core.HarnessError("fork server %s died" % self.exe)
        rc, sig, to, ol, el, leaving = [int(x) for x in hdr.split()]
        out = self.p.stdout.read(ol) if ol else b""
        err = self.p.stdout.read(el) if el else b""
        if leaving:
            self.count = 10 ** 9      # the server exits after this reply (crash survived in-process): start a fresh one next time
        if to:
            return "timeout", out, err
        if sig:
            return -sig, out, err
        return rc, out, err

    def close(self):
        try:
            self.p.stdin.close()
            self.p.wait(timeout=2)
        except Exception:
            try:
                self.p.kill()
            except Exception:
                pass


_servers = {}


def server(ctx, variant, name):
    key = (os.getpid(), variant, name)
    s = _servers.get(key)
    if s is not None and s.count >= 10 ** 9:
        s.close()              # it announced that it exits after its last reply
        s = None
    if s is None or s.p.poll() is not None:
        s = ToolServer(ctx, variant, name)
        _servers[key] = s
        import atexit
        atexit.register(s.close)
    return s


INPROC_RESTART = 400
STATS = {"inproc": 0, "fork": 0, "spawn": 0, "inproc_died": 0, "crosschecked": 0, "crosscheck_diverged": 0}
FORCE_FORK = bool(os.environ.get("VERIF_NO_INPROC"))


def locate(ctx, name, args, stdin=None, timeout=60):
    """Site of a crash seen on the plain build: repeat the run on the ASan+UBSan build (forked copy)
    and return the innermost libabigail frame, or None."""
    try:
        # a real process: a fork server that has already run requests in-process carries that mode's signal handlers
        # (which replace the sanitizer's), so its forked copies would print no stack
        rc, out, err = run_tool(ctx, "asan", name, args, timeout=timeout, stdin=stdin, spawn=True)
    except Exception:
        return None
    c = classify(rc, err)
    if c and c[1] != "unknown":
        return c
    return None


def run_tool(ctx, variant, name, args, timeout=30, stdin=None, env_extra=None, cwd=None, spawn=False, fsize=-1, stdout="pipe", fast=False):
    """Run a tool.  Default: through the per-worker fork server (a fresh forked copy per run, no exec);
    spawn=True: a real process; fast=True: call the tool's main() inside the server process (no fork);
    any abnormal end of an in-process run is repeated in fork mode, and every 64th fast run is
    cross-checked against fork mode (a divergence disables the fast path for this worker)."""
    global FORCE_FORK
    if fast and not spawn and not FORCE_FORK and not env_extra and cwd is None and fsize < 0 and stdout == "pipe":
        s = server(ctx, variant, name)
        if s.count >= INPROC_RESTART:
            s.close()
            _servers.pop((os.getpid(), variant, name), None)
            s = server(ctx, variant, name)
        try:
            r = s.request(args, timeout=timeout, stdin=stdin, inproc=True)
            STATS["inproc"] += 1
            if r[0] == "timeout":
                raise ServerDied()      # repeat in a forked copy with the longer limit
            if STATS["inproc"] % 64 == 1:
                s = server(ctx, variant, name)
                r2 = s.request(args, timeout=timeout, stdin=stdin)
                STATS["crosschecked"] += 1
                if r2 != r:
                    STATS["crosscheck_diverged"] += 1
                    FORCE_FORK = True
                    return r2
            return r
        except ServerDied:
            STATS["inproc_died"] += 1
            _servers.pop((os.getpid(), variant, name), None)
            # fall through to fork mode for the faithful outcome
    if spawn:
        env = ctx.env(**SAN_ENV)
        if env_extra:
            env.update(env_extra)
        rc, out, err = core.run([tool(variant, name)] + list(args), timeout=timeout, env=env, stdin=stdin, cwd=cwd)
        if rc == "timeout":
            rc, out, err = core.run([tool(variant, name)] + list(args), timeout=timeout * 6, env=env, stdin=stdin, cwd=cwd)
        return rc, out, err
    s = server(ctx, variant, name)
    STATS["fork"] += 1
    rc, out, err = s.request(args, timeout=timeout, stdin=stdin, cwd=cwd, env=env_extra, fsize=fsize, stdout=stdout)
    if rc == "timeout":
        # re-run alone with a 6x limit before calling it a hang
        rc, out, err = s.request(args, timeout=timeout * 6, stdin=stdin, cwd=cwd, env=env_extra, fsize=fsize, stdout=stdout)
    return rc, out, err
