"""Independent ELF symbol-table oracle: binutils readelf."""
import re
import subprocess

LINE = re.compile(r"^\s*\d+:\s+([0-9a-f]+)\s+(\d+|0x[0-9a-f]+)\s+(\w+|<OS specific>: \d+|<processor specific>: \d+)\s+(\w+)\s+(\w+)(?:\s+\[[^\]]*\])?\s+(\S+)\s*(.*)$")


def tables(path):
    """{'.symtab': [...], '.dynsym': [...]}; each entry dict(value,size,type,bind,vis,ndx,name,version,default)."""
    r = subprocess.run(["readelf", "-sW", path], stdout=subprocess.PIPE, stderr=subprocess.PIPE, env={"LC_ALL": "C", "PATH": "/usr/bin:/bin"})
    out = {}
    cur = None
    for line in r.stdout.decode(errors="replace").splitlines():
        m = re.match(r"Symbol table '(\S+)' contains", line)
        if m:
            cur = out.setdefault(m.group(1), [])
            continue
        m = LINE.match(line)
        if m and cur is not None:
            value, size, typ, bind, vis, ndx, name = m.groups()
            if typ == "<OS specific>: 10":
                typ = "IFUNC"      # STT_GNU_IFUNC in a file whose OSABI is not GNU (ld.lld)
            name = name.strip()
            ver, default = None, False
            mm = re.match(r"^(.*?)(@@?)([^@ ]+)(?: \(\d+\))?$", name)
            if mm and mm.group(1):
                name, ver, default = mm.group(1), mm.group(3), mm.group(2) == "@@"
            else:
                name = name.split(" ")[0]
            cur.append(dict(value=int(value, 16), size=int(size, 0), type=typ, bind=bind, vis=vis, ndx=ndx, name=name, version=ver, default=default))
    return out


def public_defined(path, table=None):
    """Defined GLOBAL/WEAK/UNIQUE symbols of DEFAULT/PROTECTED visibility in the table libabigail
    documents to use (.symtab if present else .dynsym); version-definition symbols (ABS objects) excluded."""
    t = tables(path)
    tab = t.get(table) if table else (t.get(".symtab") or t.get(".dynsym") or [])
    dyn = dict(((s["name"], s["value"]), s) for s in t.get(".dynsym", []))
    out = []
    for s in tab or []:
        if s["ndx"] == "UND" or s["bind"] not in ("GLOBAL", "WEAK", "UNIQUE") or s["vis"] not in ("DEFAULT", "PROTECTED"):
            continue
        if s["type"] not in ("FUNC", "OBJECT", "TLS", "IFUNC", "COMMON", "NOTYPE", "GNU_IFUNC"):
            continue
        if s["ndx"] == "ABS" and s["type"] == "OBJECT" and s["size"] == 0:
            continue      # version definition
        if s["type"] == "NOTYPE":
            continue
        s = dict(s)
        if s["version"] is None:
            d = dyn.get((s["name"], s["value"]))
            if d and d["version"]:
                s["version"], s["default"] = d["version"], d["default"]
        out.append(s)
    return out
