"""Check driver: enumerate -> evaluate every element -> confirm failures in
isolation -> classify against known_findings.json -> write evidence."""
import atexit
import hashlib
import importlib
import json
import multiprocessing
import os
import shutil
import signal
import subprocess
import sys
import tempfile
import time
import traceback

from . import build

VERIF = build.VERIF
EVIDENCE = os.environ.get("VERIF_EVIDENCE_DIR") or os.path.join(VERIF, "evidence")   # override only for experiments on mutated trees
REPLAYS = os.environ.get("VERIF_REPLAY_DIR") or os.path.join(VERIF, "replays")
KNOWN = os.path.join(VERIF, "known_findings.json")

BASE_ENV = {
    "LC_ALL": "C", "LANG": "C", "PATH": "/usr/local/bin:/usr/bin:/bin",
    "ASAN_OPTIONS": "detect_leaks=0:exitcode=99:abort_on_error=0:allocator_may_return_null=1:detect_stack_use_after_return=0",
    "UBSAN_OPTIONS": "print_stacktrace=1:halt_on_error=1:exitcode=98",
    "TSAN_OPTIONS": "exitcode=97:halt_on_error=0",
}


class HarnessError(Exception):
    pass


def jhash(obj):
    return hashlib.sha256(json.dumps(obj, sort_keys=True, default=str).encode()).hexdigest()[:16]


class Ctx(object):
    def __init__(self, pid, tier, seed):
        self.id = pid
        self.tier = tier
        self.seed = seed
        self.t0 = time.time()
        dl = os.environ.get("VERIF_DEADLINE")
        self.budget = float(dl) if dl else (240.0 if tier == "quick" else 2400.0)
        self.deadline = None  # set after prepare()
        self.scratch = tempfile.mkdtemp(prefix="vf.%s." % pid, dir=os.environ.get("VERIF_TMP", "/tmp"))
        atexit.register(self._cleanup, os.getpid())
        self.extra = {}          # extra coverage keys set by the check
        self.assumptions = []
        self.nproc = int(os.environ.get("VERIF_JOBS", os.cpu_count() or 4))

    def _cleanup(self, owner):
        if os.getpid() == owner:
            shutil.rmtree(self.scratch, ignore_errors=True)

    @property
    def quick(self):
        return self.tier == "quick"

    def time_left(self):
        return self.deadline - time.time() if self.deadline else 1e9

    def tmpdir(self, tag="w"):
        return tempfile.mkdtemp(prefix=tag + ".", dir=self.scratch)

    def env(self, **kw):
        e = dict(BASE_ENV)
        e["HOME"] = self.scratch
        e["TMPDIR"] = self.scratch
        e["XDG_CACHE_HOME"] = self.scratch
        e.update(kw)
        return e


def run(cmd, timeout=30, stdin=None, env=None, cwd=None, ctx=None, merge=False, limit_out=None):
    """Run a command; returns (rc, stdout_bytes, stderr_bytes).  rc<0 = signal,
    rc = 'timeout' on time-out (after killing the process group)."""
    if env is None:
        env = ctx.env() if ctx else dict(BASE_ENV)
    try:
        p = subprocess.Popen(cmd, stdin=subprocess.PIPE if stdin is not None else subprocess.DEVNULL,
                             stdout=subprocess.PIPE,
                             stderr=subprocess.STDOUT if merge else subprocess.PIPE,
                             env=env, cwd=cwd, start_new_session=True)
    except OSError as e:
        raise HarnessError("cannot start %r: %s" % (cmd, e))
    try:
        out, err = p.communicate(stdin, timeout=timeout)
        return p.returncode, out, err or b""
    except subprocess.TimeoutExpired:
        try:
            os.killpg(p.pid, signal.SIGKILL)
        except OSError:
            pass
        out, err = p.communicate()
        return "timeout", out, err or b""


def load_known():
    if not os.path.exists(KNOWN):
        return []
    with open(KNOWN) as f:
        return json.load(f)["findings"]


# ---------------------------------------------------------------- pool plumbing
_CHECK = None
_CTX = None


def _eval_one(elem):
    try:
        r = _CHECK.evaluate(_CTX, elem)
        if r is None:
            r = {}
        return elem, r, None
    except HarnessError as e:
        return elem, None, "HarnessError: %s" % e
    except Exception:
        return elem, None, traceback.format_exc()


def _normalize(elem, r):
    r.setdefault("failures", [])
    r.setdefault("evaluations", 1)
    if "nontrivial_count" not in r:
        r["nontrivial_count"] = 1 if r.get("nontrivial", True) else 0
    if "outcomes" not in r:
        r["outcomes"] = {str(r.get("outcome", "ok")): 1}
    return r


def run_check(pid, tier, replay=None):
    global _CHECK, _CTX
    seed = int(os.environ.get("VERIF_SEED", "0") or 0)
    tier = os.environ.get("VERIF_TIER", tier) or tier
    if tier not in ("quick", "thorough"):
        tier = "quick"
    mod = importlib.import_module("vf.checks." + pid.lower())
    ctx = Ctx(pid, tier, seed)
    _CHECK, _CTX = mod, ctx
    try:
        mod.prepare(ctx)
    except build.BuildError as e:
        print("HARNESS-ERROR: property=%s build failed: %s" % (pid, e))
        return 2
    ctx.deadline = time.time() + ctx.budget

    if replay:
        with open(replay) as f:
            rp = json.load(f)
        elem = rp["element"]
        _, r, err = _eval_one(elem)
        if err:
            print("HARNESS-ERROR: property=%s replay raised: %s" % (pid, err))
            return 2
        r = _normalize(elem, r)
        for fl in r["failures"]:
            print("REPLAY-FAILURE property=%s signature=%s :: %s" % (pid, fl["sig"], fl["what"]))
        if any(fl["sig"] == rp.get("signature") for fl in r["failures"]) or (r["failures"] and not rp.get("signature")):
            print("VIOLATION property=%s replay=%s" % (pid, replay))
            return 1
        print("replay: property=%s element no longer fails with signature %r" % (pid, rp.get("signature")))
        return 0

    stages = mod.stages(ctx)
    evaluations = 0
    nontrivial = 0
    outcomes = {}
    samples = []
    failures = {}      # sig -> list of (elem, failure)
    harness_errors = []
    bounds_attempted, bounds_completed = [], []
    stage_times = {}
    truncated = False
    pool = None
    if getattr(mod, "PARALLEL", True) and ctx.nproc > 1:
        # JOBS: checks dominated by fork/exec use few workers (process creation is serialised in this sandbox)
        pool = multiprocessing.get_context("fork").Pool(min(ctx.nproc, getattr(mod, "JOBS", ctx.nproc)))
    try:
        for name, elems in stages:
            bounds_attempted.append(name)
            if ctx.time_left() <= 0:
                truncated = True
                break
            complete = True
            t_stage = time.time()
            it = pool.imap_unordered(_eval_one, elems, chunksize=getattr(mod, "CHUNK", 1)) if pool else map(_eval_one, elems)
            nstage = 0
            for elem, r, err in it:
                if err:
                    harness_errors.append((elem, err))
                    if len(harness_errors) > 20:
                        complete = False
                        break
                    continue
                r = _normalize(elem, r)
                evaluations += r["evaluations"]
                nontrivial += r["nontrivial_count"]
                for k, v in r["outcomes"].items():
                    outcomes[k] = outcomes.get(k, 0) + v
                nstage += 1
                if len(samples) < 6 and (r["nontrivial_count"] or nstage <= 2):
                    samples.append(r.get("sample", elem))
                for fl in r["failures"]:
                    failures.setdefault(fl["sig"], []).append((fl.get("element", elem), fl))
                for k, v in r.get("extra", {}).items():
                    if isinstance(v, (int, float)):
                        ctx.extra[k] = ctx.extra.get(k, 0) + v
                    else:
                        ctx.extra[k] = v
                if ctx.time_left() <= 0:
                    complete = False
                    truncated = True
                    break
            stage_times[name] = round(time.time() - t_stage, 1)
            if complete:
                bounds_completed.append(name)
            else:
                if pool:
                    pool.terminate()
                    pool = None
                break
    finally:
        if pool:
            pool.terminate()
            pool.join()

    # ---- confirm failures in isolation, classify
    known = [k for k in load_known() if k["property"] == pid]
    open_list = [k for k in known if k.get("status") == "open"]

    def known_entry(sig):
        """Exact signature, or an fnmatch pattern (used to identify a finding by its call site)."""
        import fnmatch
        for k in open_list:
            if k["signature"] == sig or (any(c in k["signature"] for c in "*?") and fnmatch.fnmatchcase(sig, k["signature"])):
                return k
        return None

    confirmed, unconfirmed = {}, {}
    known_confirmed = set()
    for sig, lst in sorted(failures.items()):
        ok = None
        ke0 = known_entry(sig)
        if ke0 is not None and ke0["signature"] in known_confirmed:
            # this listed finding was already re-executed in isolation through another instance
            confirmed[sig] = ((lst[0][0], lst[0][1]), len(lst))
            continue
        for elem, fl in lst[:3]:
            _, r2, err = _eval_one(elem)
            if err:
                continue
            r2 = _normalize(elem, r2)
            if any(f2["sig"] == sig for f2 in r2["failures"]):
                ok = (elem, fl)
                break
        if ok:
            confirmed[sig] = (ok, len(lst))
            if ke0 is not None:
                known_confirmed.add(ke0["signature"])
        else:
            unconfirmed[sig] = len(lst)

    rc = 0
    known_counts = {}
    viol = 0
    os.makedirs(REPLAYS, exist_ok=True)
    for sig, ((elem, fl), n) in sorted(confirmed.items()):
        ke = known_entry(sig)
        if ke is not None:
            kk = ke["signature"]
            if kk not in known_counts:
                print("KNOWN-FINDING: property=%s %s [%s]" % (pid, ke["what"], kk))
            known_counts[kk] = known_counts.get(kk, 0) + n
            continue
        path = os.path.join(REPLAYS, "%s-%s.json" % (pid, hashlib.sha256(sig.encode()).hexdigest()[:10]))
        with open(path, "w") as f:
            json.dump({"property": pid, "signature": sig, "what": fl["what"], "element": elem,
                       "detail": fl.get("detail"), "instances": n, "tier": tier,
                       "replay_cmd": "./check %s --replay %s" % (pid, path)}, f, indent=1, default=str)
        print("  signature: %s\n  what: %s" % (sig, fl["what"]))
        print("VIOLATION property=%s replay=%s" % (pid, path))
        viol += 1
        rc = 1
    for sig, n in unconfirmed.items():
        print("UNCONFIRMED: property=%s signature=%s failed %d time(s) in the sweep but not when re-run alone" % (pid, sig, n))
    if harness_errors:
        for elem, err in harness_errors[:3]:
            print("HARNESS-ERROR: property=%s element=%s\n%s" % (pid, json.dumps(elem, default=str)[:300], err))
        if rc == 0:
            rc = 2

    exhaustive = (not truncated) and bounds_completed == bounds_attempted and not harness_errors
    cov = {
        "evaluations": int(evaluations),
        "distinct_nontrivial": int(nontrivial),
        "rule": getattr(mod, "RULE", ""),
        "samples": samples or ["(none)"],
        "exhaustive": bool(exhaustive),
        "bounds_attempted": bounds_attempted,
        "bounds_completed": bounds_completed,
        "bound_completed": bounds_completed[-1] if bounds_completed else None,
        "distinct_outcomes": len(outcomes),
        "outcomes": dict(sorted(outcomes.items(), key=lambda kv: -kv[1])[:40]),
        "known_findings": known_counts,
        "unconfirmed": unconfirmed,
        "deadline_hit": bool(truncated),
        "stage_wall_s": stage_times,
        "tree": build.tree_hash(),
    }
    cov.update(ctx.extra)
    if hasattr(mod, "finalize"):
        try:
            mod.finalize(ctx, cov)
        except Exception:
            traceback.print_exc()
    ev = {
        "property_id": pid, "tier": tier, "seed": seed,
        "level": getattr(mod, "LEVEL", "exploration"),
        "coverage": cov,
        "assumptions": list(getattr(mod, "ASSUMPTIONS", [])) + ctx.assumptions,
        "wall_s": round(time.time() - ctx.t0, 2),
        "violations": viol,
    }
    os.makedirs(EVIDENCE, exist_ok=True)
    tmp = os.path.join(EVIDENCE, ".%s.json.%d" % (pid, os.getpid()))
    with open(tmp, "w") as f:
        json.dump(ev, f, indent=1, default=str)
        f.write("\n")
    os.rename(tmp, os.path.join(EVIDENCE, pid + ".json"))
    print("%s %s: evaluations=%d nontrivial=%d outcomes=%d bounds=%s exhaustive=%s known=%d violations=%d wall=%.1fs" % (
        pid, tier, evaluations, nontrivial, len(outcomes), ",".join(map(str, bounds_completed)) or "-",
        exhaustive, len(known_counts), viol, time.time() - ctx.t0))
    return rc
