"""Helpers for checks whose elements are shards evaluated by an in-process C++ probe."""
import json
import os
from . import build, core

HARNESS = os.path.join(build.VERIF, "harness")


def build_probe(variant, name, extra_flags=(), **kw):
    return build.build_probe(variant, os.path.join(HARNESS, name + ".cc"),
                             extra_flags=["-I" + HARNESS] + list(extra_flags), **kw)


def run_probe(ctx, exe, args, timeout=600, stdin=None, env=None):
    rc, out, err = core.run([exe] + [str(a) for a in args], timeout=timeout, ctx=ctx, stdin=stdin, env=env)
    if rc != 0:
        raise core.HarnessError("probe %s %s -> rc=%s\n%s\n%s" % (os.path.basename(exe), args, rc, out[-2000:].decode(errors="replace"), err[-2000:].decode(errors="replace")))
    line = out.decode(errors="replace").strip().splitlines()[-1]
    try:
        return json.loads(line)
    except ValueError:
        raise core.HarnessError("probe output not JSON: %r" % line[:500])
