"""Minimal ABIXML model for the oracles (ElementTree based, independent of libabigail)."""
import xml.etree.ElementTree as ET


class Doc(object):
    def __init__(self, data):
        self.root = ET.fromstring(data)
        self.by_id = {}
        for el in self.root.iter():
            i = el.attrib.get("id")
            if i and el.tag != "elf-symbol":
                # keep the definition when a declaration-only twin exists
                if i not in self.by_id or self.by_id[i].attrib.get("is-declaration-only") == "yes":
                    self.by_id[i] = el

    def aggregates(self):
        """name -> element for class-decl / union-decl definitions."""
        out = {}
        for el in self.root.iter():
            if el.tag in ("class-decl", "union-decl") and el.attrib.get("is-declaration-only") != "yes":
                out.setdefault(el.attrib.get("name"), []).append(el)
        return out

    def members(self, agg):
        """[(name, offset_in_bits or None, type-id)] of the data members of an aggregate element."""
        out = []
        for dm in agg.findall("data-member"):
            v = dm.find("var-decl")
            if v is None:
                continue
            off = dm.attrib.get("layout-offset-in-bits")
            out.append((v.attrib.get("name"), int(off) if off is not None else None, v.attrib.get("type-id")))
        return out

    def functions(self):
        return dict((el.attrib.get("name"), el) for el in self.root.iter("function-decl") if el.attrib.get("elf-symbol-id"))

    def variables(self):
        return dict((el.attrib.get("name"), el) for el in self.root.iter("var-decl") if el.attrib.get("elf-symbol-id"))

    def type_string(self, tid, depth=0):
        """Canonical C-like spelling of a type id, resolving the emitted type graph."""
        el = self.by_id.get(tid)
        if el is None or depth > 12:
            return "?%s" % tid
        t = el.tag
        if t == "type-decl":
            return el.attrib.get("name")
        if t in ("class-decl", "union-decl"):
            return ("union " if t == "union-decl" else "struct ") + el.attrib.get("name", "")
        if t == "enum-decl":
            return "enum " + el.attrib.get("name", "")
        if t == "typedef-decl":
            return "typedef:" + el.attrib.get("name", "")
        if t == "pointer-type-def":
            return self.type_string(el.attrib["type-id"], depth + 1) + "*"
        if t == "reference-type-def":
            return self.type_string(el.attrib["type-id"], depth + 1) + "&"
        if t == "qualified-type-def":
            q = []
            if el.attrib.get("const") == "yes":
                q.append("const")
            if el.attrib.get("volatile") == "yes":
                q.append("volatile")
            inner = self.by_id.get(el.attrib["type-id"])
            if inner is not None and inner.tag == "pointer-type-def":
                # a qualified pointer is spelled with postfix qualifiers so that it cannot be mistaken for a pointer to a qualified type
                return self.type_string(el.attrib["type-id"], depth + 1) + " " + " ".join(q)
            return " ".join(q + [self.type_string(el.attrib["type-id"], depth + 1)])
        if t == "array-type-def":
            dims = "".join("[%s]" % s.attrib.get("length") for s in el.findall("subrange"))
            return self.type_string(el.attrib["type-id"], depth + 1) + dims
        if t == "function-type":
            ps = [p for p in el.findall("parameter")]
            r = el.find("return")
            return "%s(%s)" % (self.type_string(r.attrib["type-id"], depth + 1) if r is not None else "void",
                               ",".join("..." if p.attrib.get("is-variadic") == "yes" else self.type_string(p.attrib["type-id"], depth + 1) for p in ps))
        return t

    def signature(self, fn):
        ps = fn.findall("parameter")
        r = fn.find("return")
        params = []
        variadic = False
        for p in ps:
            if p.attrib.get("is-variadic") == "yes":
                variadic = True
            else:
                params.append(self.type_string(p.attrib["type-id"]))
        return (self.type_string(r.attrib["type-id"]) if r is not None else "void", params, variadic)
