"""Catalogue of suppression-specification documents: section kind x property key x value shape."""
SECTIONS = ["suppress_type", "suppress_function", "suppress_variable", "suppress_file", "suppress_bogus"]
KEYS = ["label", "name", "name_regexp", "name_not_regexp", "file_name_regexp", "file_name_not_regexp",
        "soname_regexp", "soname_not_regexp", "type_kind", "accessed_through", "source_location_not_in",
        "source_location_not_regexp", "drop", "drop_artifact", "changed_enumerators",
        "has_data_member_inserted_at", "has_data_member_inserted_between", "has_data_members_inserted_between",
        "change_kind", "parameter", "return_type_name", "return_type_regexp", "symbol_name", "symbol_name_regexp",
        "symbol_name_not_regexp", "symbol_version", "symbol_version_regexp", "allow_other_aliases",
        "type_name", "type_name_regexp", "type_name_not_regexp", "unknown_key"]
SHAPES = [
    ("valueless", None), ("empty", ""), ("string", "foo"), ("regex", "^f.*$"), ("bad-regex", "f(oo"), ("bad-regex2", "*["),
    ("star", "*"), ("list2", "a, b"), ("list3", "a, b, c"), ("list-trailing-comma", "a,"), ("tuple-empty", "{}"),
    ("tuple1", "{a}"), ("tuple2", "{8, end}"), ("tuple-nested", "{{8, 16}, {end, end}}"), ("tuple-deep", "{{{a}}}"),
    ("tuple-mixed", "{a, {b}}"), ("unbalanced-open", "{8, end"), ("unbalanced-close", "8, end}"), ("unbalanced-nested", "{{8, end}"),
    ("escape-eol", "a\\"), ("escape-bracket", "\\[a\\]"), ("leading-bracket", "[a-z]+"), ("leading-equal", "=x"),
    ("huge", "18446744073709551616"), ("negative", "-1"), ("number", "8"), ("end", "end"),
    ("fn-call0", "offset_of()"), ("fn-call1", "offset_of(m)"), ("fn-call2", "offset_of(a,b)"), ("fn-unterminated", "offset_of(m"),
    ("fn-after", "offset_after(m)"), ("fn-in-tuple", "{offset_of(m), end}"), ("fn-in-tuple-bad", "{offset_of(, offset_after)}"),
    ("fn-nested-tuple", "{{offset_after(a), offset_of(b)}}"), ("param-index", "'0 int"), ("param-bad", "' "), ("param-regex", "'1 /^i.*/"),
    ("param-unterminated-regex", "'0 /abc"), ("yes", "yes"), ("kind-struct", "struct"), ("kind-all", "all"),
    ("change-kind", "added-function"), ("nul-like", "\\0"), ("utf8", "\xc3\xa9"), ("long", "a" * 300),
]


def doc(section, props):
    lines = ["[%s]" % section]
    for k, v in props:
        lines.append(k if v is None else "%s = %s" % (k, v))
    return "\n".join(lines) + "\n"


def single_docs():
    """Every (section, key, shape)."""
    for s in SECTIONS:
        for k in KEYS:
            for name, v in SHAPES:
                yield {"section": s, "props": [[k, v]], "shape": name}


CORE_KEYS = ["name", "name_regexp", "type_kind", "has_data_member_inserted_between", "has_data_member_inserted_at",
             "parameter", "symbol_name", "change_kind", "source_location_not_in", "accessed_through", "drop"]
CORE_SHAPES = [x for x in SHAPES if x[0] in ("valueless", "string", "list2", "tuple2", "tuple-nested", "fn-in-tuple", "fn-unterminated",
                                             "unbalanced-open", "param-index", "bad-regex", "leading-bracket", "escape-eol")]


def pair_docs():
    """Every pair of (key, shape) from the core catalogue inside the four real section kinds."""
    for s in SECTIONS[:4]:
        for k1 in CORE_KEYS:
            for n1, v1 in CORE_SHAPES:
                for k2 in CORE_KEYS:
                    if k2 <= k1:
                        continue
                    for n2, v2 in CORE_SHAPES:
                        yield {"section": s, "props": [[k1, v1], [k2, v2]], "shape": n1 + "+" + n2}
