"""Small shared objects with an exactly controlled dynamic symbol table (C11, C18, C19)."""
from . import cbuild

STATES = ["absent", "plain", "default", "nondefault"]
UNIVERSE = [("syma", True), ("symb", True), ("symv", False)]


def source(state):
    src = []
    for (name, isfn), st in zip(UNIVERSE, state):
        if st == "absent":
            continue
        impl = name + "_impl" if st in ("default", "nondefault") else name
        src.append("int %s(void) { return 1; }" % impl if isfn else "int %s = 1;" % impl)
        if st == "default":
            src.append('__asm__(".symver %s,%s@@V1");' % (impl, name))
        elif st == "nondefault":
            src.append('__asm__(".symver %s,%s@V1");' % (impl, name))
    src.append("int zz_keep(void) { return 0; }")
    return "\n".join(src) + "\n"


def build(state, debug=False):
    return cbuild.compile_units([("s.c", source(state), ["-g"] if debug else [])],
                                link_flags=["-Wl,--version-script=v.map", "-Wl,-soname,libs.so"], out_name="libs.so",
                                extra_files={"v.map": "V1 { local: *_impl; };\n"}, tag="symlib2")


def expected(state):
    """Set of (name, version or None, is_default) of the generated public symbols (zz_keep aside)."""
    out = set()
    for (name, isfn), st in zip(UNIVERSE, state):
        if st == "plain":
            out.add((name, None, False, isfn))
        elif st == "default":
            out.add((name, "V1", True, isfn))
        elif st == "nondefault":
            out.add((name, "V1", False, isfn))
    return out
