"""C02 — ABIXML serialization preserves the ABI."""
import itertools
import os

from .. import core, pscommon as pc

LEVEL = "exploration"
ENGINE = "progspace"
TECHNIQUE = "bounded exhaustive exploration: every node binary x every subset (size <= 2; all 128 subsets on a core in the thorough tier) of the information-preserving abidw options; oracles abidiff(B, abixml) silent and abidw --abidiff"
RULE = ("node binaries as in C01; option sets = all subsets of size <= 2 of {--no-show-locs, --no-parameter-names, --no-write-default-sizes, --type-id-style hash, --no-corpus-path, --annotate, --load-all-types} "
        "(29 sets); thorough: all 128 subsets on the seed programs. For each: abidw <opts> B > X; abidiff B X must exit 0 and print nothing; abidw <opts> --abidiff B must exit 0. Non-trivial: every (binary, option set).")
TEXT = "Complete cross of node binaries and option subsets up to the stated size."
NOTE = "Only options the property lists as information preserving."
OPTS = [["--no-show-locs"], ["--no-parameter-names"], ["--no-write-default-sizes"], ["--type-id-style", "hash"], ["--no-corpus-path"], ["--annotate"], ["--load-all-types"]]


def prepare(ctx):
    from .. import toolrun
    toolrun.tool("plain", "abidw")


def _subsets(maxn):
    out = [[]]
    for n in range(1, maxn + 1):
        for c in itertools.combinations(range(len(OPTS)), n):
            out.append(sum((OPTS[i] for i in c), []))
    return out


def stages(ctx):
    bins = pc.node_binary_specs(ctx.quick)
    st = [("subsets<=2", [{"bin": b, "sets": _subsets(1 if ctx.quick and "pack" in b else 2)} for b in bins])]
    if not ctx.quick:
        st.append(("all-128-subsets(seeds)", [{"bin": b, "sets": _subsets(7)[29:]} for b in bins if "seed" in b and b["cc"] == "gcc" and not b.get("dwarf")]))
    return st


def evaluate(ctx, e):
    b = e["bin"]
    path = pc.node_binary(b)
    d = ctx.tmpdir("c02")
    fails, outs = [], {}
    n = 0
    for o in e["sets"]:
        rc, out, err = pc.run(ctx, "abidw", o + [path])
        if rc != 0:
            fails.append({"sig": "C02 abidw exit%s emit %s" % (rc, "+".join(x for x in o if x.startswith("--")) or "default"), "what": "abidw %s failed on %s: %s" % (o, b["id"], err[-300:])})
            continue
        x = os.path.join(d, "x.abi")
        with open(x, "wb") as f:
            f.write(out)
        rc, out, err = pc.abidiff(ctx, path, x)
        n += 1
        oname = "+".join(x for x in o if x.startswith("--")) or "default"
        kind = ("seed-" + b["seed"]) if "seed" in b else "pack"
        if rc != 0 or out.strip():
            fails.append({"sig": "C02 abidiff exit%s elf-vs-abixml %s %s" % (rc, oname, kind),
                          "what": "abidiff %s vs the ABIXML written with %s: exit %s: %s" % (b["id"], o, rc, (out or err)[:400]), "element": {"bin": b, "sets": [o]}})
        rc2, out2, err2 = pc.run(ctx, "abidw", o + ["--abidiff", path])
        n += 1
        if rc2 != 0:
            fails.append({"sig": "C02 abidw exit%s self-check %s %s" % (rc2, oname, kind),
                          "what": "abidw %s --abidiff %s exits %s: %s" % (o, b["id"], rc2, (out2 + err2)[-400:]), "element": {"bin": b, "sets": [o]}})
        outs["ok" if rc == 0 and rc2 == 0 else "bad"] = outs.get("ok" if rc == 0 and rc2 == 0 else "bad", 0) + 1
    return {"evaluations": n, "nontrivial_count": len(e["sets"]), "outcomes": outs, "failures": fails, "sample": {"binary": b["id"], "option_sets": e["sets"][:3]}}
