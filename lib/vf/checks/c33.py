"""C33 — reading any ABIXML input is memory-safe and never aborts."""
import os

from .. import core, seeds, toolrun, xmlmut

LEVEL = "fault_enumeration"
ENGINE = "xmlmut"
TECHNIQUE = "exhaustive single-deviation enumeration over emitted ABIXML documents: every structural mutation operator at every element / attribute site and every byte-level corruption at every offset, run through abilint and abidiff (plain build in the quick tier, ASan+UBSan build in the thorough tier)"
RULE = ("documents = abidw output of the seed programs. struct: element {delete, duplicate, swap with next sibling, move out of parent} at every element; attribute {delete, empty, x, -1, 2^64, "
        "other enum token, id of another type, undefined id, own id, duplicate id} at every attribute; version in {absent, '', x, 2, 2., .1, 99.0, 1.0}. byte: {delete, <, &, ', NUL, 0xFF} at every "
        "offset (strided in quick). Each mutant is read by abilint (file), abilint --stdin, abidiff (mutant, original) and abidiff (original, mutant). Oracle: the process ends by exit - no signal, "
        "no assertion abort, no sanitizer report, no time-out. Non-trivial: every mutant (it differs from the valid document).")
TEXT = "Deviation bound 1 from a valid document is completed on 2 (quick) / all 7 (thorough) seed documents; deviation 2 (pairs of attribute mutations) on one document in the thorough tier."
NOTE = ("The quick tier uses the plain build, so it sees signals, aborts and hangs but not silent out-of-bounds reads; the thorough tier repeats the catalogue on the ASan+UBSan build. "
        "Crashes whose innermost frame is inside libxml2 are tallied as third-party.")
ASSUMPTIONS = ["mutations of abidw-generated documents are representative of malformed ABIXML"]
_docs = {}
_enum = {}


def _v(ctx):
    return "plain" if ctx.quick else "asan"


def prepare(ctx):
    toolrun.tool(_v(ctx), "abilint")
    toolrun.tool("plain", "abidw")
    names = ["basic", "cxx_anon"] if ctx.quick else [n for n in seeds.all_names() if n != "big"]
    for n in names:
        lib = seeds.build(n)
        rc, out, err = toolrun.run_tool(ctx, "plain", "abidw", ["--no-corpus-path", lib], spawn=True)
        if rc != 0:
            raise core.HarnessError("abidw failed on %s" % n)
        p = os.path.join(ctx.scratch, n + ".abi")
        with open(p, "wb") as f:
            f.write(out)
        _docs[n] = (p, out)
    _enum.update(xmlmut.enum_value_table([d for _, d in _docs.values()]))


def _muts(doc):
    return list(xmlmut.structure_mutations(_docs[doc][1], _enum))


def stages(ctx):
    st1 = []
    for d in _docs:
        n = len(_muts(d))
        st1 += [{"kind": "struct", "doc": d, "lo": i, "hi": min(i + 100, n)} for i in range(0, n, 100)]
        if ctx.quick:
            if d == "basic":
                st1 += [{"kind": "byte", "doc": d, "stride": 29, "offset": o} for o in (0, 7)]
        else:
            st1 += [{"kind": "byte", "doc": d, "stride": 7, "offset": o} for o in range(7)]
    st = [("single-mutations", st1)]
    if not ctx.quick:
        st.append(("attribute-mutation-pairs(basic)", [{"kind": "pairs", "doc": "basic", "lo": i, "hi": i + 20} for i in range(0, 400, 20)]))
    return st


def _run_all(ctx, e, u, op, site, fails, outs):
    full = _docs[e["doc"]][0]
    d = ctx.tmpdir("m")
    up = os.path.join(d, "m.abi")
    with open(up, "wb") as f:
        f.write(u)
    v = _v(ctx)
    runs = [("abilint", [up], None, "file"), ("abilint", ["--stdin"], u, "stdin"), ("abidiff", [up, full], None, "arg1"), ("abidiff", [full, up], None, "arg2")]
    for tool, args, stdin, pos in runs:
        rc, out, err = toolrun.run_tool(ctx, v, tool, args, timeout=20, stdin=stdin, fast=True)
        c = toolrun.classify(rc, err)
        if c is None:
            outs["exit"] = outs.get("exit", 0) + 1
            continue
        outcome, where, owner = c
        if outcome == "asan:stack-overflow":
            outcome = "segv"       # the same event as on the plain build (unbounded recursion), named alike in signatures
        if where == "unknown":     # no usable trace (plain build, or an in-process run that caught the signal): repeat in a forked ASan copy
            c2 = toolrun.locate(ctx, tool, args, stdin=stdin)
            if c2:
                where, owner = c2[1], c2[2]
                if c2[0] == "asan:stack-overflow":
                    outcome = "segv"
        outs[outcome] = outs.get(outcome, 0) + 1
        if owner == "third_party":
            outs["third-party"] = outs.get("third-party", 0) + 1
            continue
        fails.append({"sig": "C33 %s %s %s %s" % (tool, outcome, where, op),
                      "what": "%s (%s) %s in %s on mutant '%s' at %s of %s.abi: %s" % (tool, pos, outcome, where, op, site, e["doc"], err.decode(errors="replace")[-300:].replace("\n", " | ")),
                      "element": {"kind": "one", "doc": e["doc"], "op": op, "site": str(site), "base": e["kind"]}})
    return len(runs)


def evaluate(ctx, e):
    fails, outs = [], {}
    n = nt = 0
    data = _docs[e["doc"]][1]
    if e["kind"] == "struct":
        for op, site, u in _muts(e["doc"])[e["lo"]:e["hi"]]:
            n += _run_all(ctx, e, u, op, site, fails, outs)
            nt += 1
    elif e["kind"] == "byte":
        for op, pos, u in xmlmut.byte_mutations(data, e["stride"], e["offset"]):
            n += _run_all(ctx, e, u, op, pos, fails, outs)
            nt += 1
    elif e["kind"] == "pairs":
        base = [m for m in _muts(e["doc"]) if m[0].startswith(("attr-", "id-"))]
        sel = base[::max(1, len(base) // 400)][e["lo"]:e["hi"]]
        for op1, site1, u1 in sel:
            for op2, site2, u2 in list(xmlmut.structure_mutations(u1, _enum))[::37]:
                if op2.startswith(("attr-", "id-")):
                    n += _run_all(ctx, e, u2, op1 + "+" + op2, "%s,%s" % (site1, site2), fails, outs)
                    nt += 1
    else:  # replay of one mutant
        src = _muts(e["doc"]) if e["base"] != "byte" else [(o, str(p), u) for o, p, u in xmlmut.byte_mutations(data, 1, 0)]
        for op, site, u in src:
            if op == e["op"] and str(site) == e["site"]:
                n += _run_all(ctx, e, u, op, site, fails, outs)
                nt += 1
                break
    return {"evaluations": n, "nontrivial_count": nt, "outcomes": outs, "failures": fails,
            "sample": {"doc": e["doc"], "kind": e["kind"], "first": e.get("lo", e.get("offset"))}}
