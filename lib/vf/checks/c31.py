"""C31 — parallel package comparison equals sequential comparison."""
import json
import os
import shutil

from .. import build, cbuild, core, sched, toolrun

LEVEL = "model_checking"
ENGINE = "vsched"
TECHNIQUE = ("stateless deviation-bounded model checking of the real abipkgdiff main() under a controlled scheduler (every schedule with at most d non-default scheduling decisions, "
             "worker count controlled through the intercepted sysconf), oracle = byte equality with the --no-parallel run; ThreadSanitizer companion on the free-running tool")
RULE = ("for each package-pair scenario x worker count N in {2,3}: depth-first enumeration of all choice sequences of the cooperative scheduler with at most d deviations from the default schedule "
        "(a deviation = any non-default decision: preemption, switch at a blocking point, choice of the signalled waiter); each execution runs the unmodified tool main() in a forked child "
        "(~140 scheduling points); states = schedules executed (no state merging: the tool's shared state is not observable), transitions = scheduling decisions taken; "
        "every execution's stdout and exit status must equal those of `--no-parallel`; deadlock, livelock, crash are violations. Scenarios: mixed changed/unchanged binaries, "
        "equal-size same-name binaries in different directories (comparator ties), .abignore in both packages, removed+added binaries.")
TEXT = ("Exhaustive for deviation bound 1 (quick) on 4 scenarios x N in {2,3}; deviation bound 2 (thorough, time-capped, reported non-exhaustive if the cap is hit). "
        "Every explored schedule is a real execution of the implementation, so each one is a trace validated against the implementation.")
NOTE = ("Scheduling points are the pthread calls of abg-workers.cc only; code between them (ELF/DWARF reading, diffing) runs atomically under vsched, so races inside it are invisible here and "
        "are delegated to the ThreadSanitizer run of the free-running tool (a detector, not an enumeration). Bounded deviations: reorderings needing more than d decisions are not covered.")
ASSUMPTIONS = ["sequentially consistent interleavings at synchronisation operations", "abipkgdiff treats directories as packages exactly like extracted archives"]
_exe = None
_scen = {}

A1 = 'struct S{int a;}; int fa(struct S*s){return s->a;}\nint ga(int x){return x;}\n'
A2 = 'struct S{int a; int b;}; int fa(struct S*s){return s->a;}\nint ga(int x){return x;}\n'
B1 = 'int fb(int x){return x;}\n'
B2 = 'long fb(long x){return x;}\n'
C1 = 'int fc(void){return 1;}\n'
D1 = 'int fd(void){return 1;}\nint gd(void){return 2;}\n'
D2 = 'int fd(void){return 1;}\n'


# filler files make both package walks long enough to overlap in the free-running TSan pass
FILLER = dict(("doc/f%03d.txt" % i, "x\n") for i in range(40))


def _lib(src, name):
    return cbuild.shared_c(src, name=name, link=["-Wl,-soname," + name])


def _mk(root, files):
    for rel, src in files.items():
        p = os.path.join(root, rel)
        os.makedirs(os.path.dirname(p), exist_ok=True)
        if isinstance(src, tuple):
            shutil.copy(_lib(src[0], os.path.basename(rel)), p)
        else:
            with open(p, "w") as f:
                f.write(src)


def prepare(ctx):
    global _exe
    _exe = sched.build_pkgdiff_harness()
    toolrun.tool("tsan", "abipkgdiff")
    base = os.path.join(ctx.scratch, "pkgs")
    sc = {
        "mixed": ({"lib/liba.so": (A1,), "lib/libb.so": (B1,), "lib/libc.so": (C1,)},
                  {"lib/liba.so": (A2,), "lib/libb.so": (B2,), "lib/libc.so": (C1,)}),
        "ties": ({"lib/x/libz.so": (A1,), "lib/y/libz.so": (A2,), "lib/libb.so": (B1,)},
                 {"lib/x/libz.so": (A2,), "lib/y/libz.so": (A1,), "lib/libb.so": (B1,)}),
        "abignore": (dict({"lib/liba.so": (A1,), "lib/libb.so": (B1,), "a.abignore": "[suppress_function]\n  name = fb\n",
                           "m/m.abignore": "[suppress_function]\n  name = zz_nothing\n", "z/z.abignore": "[suppress_variable]\n  name = zz_nothing\n"}, **FILLER),
                     dict({"lib/liba.so": (A2,), "lib/libb.so": (B2,), "b.abignore": "[suppress_type]\n  name = S\n",
                           "m/n.abignore": "[suppress_function]\n  name = zz_nothing2\n", "z/y.abignore": "[suppress_variable]\n  name = zz_nothing2\n"}, **FILLER)),
        "removed-added": ({"lib/liba.so": (A1,), "lib/libd.so": (D1,), "lib/libold.so": (C1,)},
                          {"lib/liba.so": (A2,), "lib/libd.so": (D2,), "lib/libnew.so": (C1,)}),
    }
    for name, (p1, p2) in sc.items():
        d1, d2 = os.path.join(base, name, "pkg1"), os.path.join(base, name, "pkg2")
        _mk(d1, p1)
        _mk(d2, p2)
        _scen[name] = (d1, d2)


def stages(ctx):
    names = ["mixed", "ties", "abignore", "removed-added"]
    st = [("deviations<=1", [{"mode": "explore", "scenario": s, "nproc": n, "dev": 1} for s in names for n in (2, 3)]
           + [{"mode": "tsan", "scenario": s} for s in names])]
    if not ctx.quick:
        st.append(("deviations<=2", [{"mode": "explore", "scenario": s, "nproc": 2, "dev": 2} for s in names]))
    return st


def _harness(ctx, args, timeout):
    d = ctx.tmpdir("pk")
    rc, out, err = core.run([_exe] + args[:1] + args[1:], timeout=timeout, ctx=ctx, cwd=d)
    return rc, out.decode(errors="replace"), err.decode(errors="replace")


def evaluate(ctx, e):
    d1, d2 = _scen[e["scenario"]]
    common = ["--no-default-suppression", d1, d2]
    scratch = ctx.tmpdir("sc")
    if e["mode"] == "tsan":
        env = ctx.env(TSAN_OPTIONS="exitcode=0:halt_on_error=0:report_signal_unsafe=0")
        races = 0
        txt = ""
        for i in range(4):
            rc, out, err = core.run([toolrun.tool("tsan", "abipkgdiff")] + common, timeout=300, env=env)
            t = err.decode(errors="replace")
            if "ThreadSanitizer: data race" in t:
                races += 1
                txt = t
        fails = []
        if races:
            import re
            frames = re.findall(r"#\d+ (\S+) ", txt)
            site = next((f for f in frames if "abigail" in f or "abipkgdiff" in f or not f.startswith(("std::", "__", "operator", "void std", "malloc"))), "unknown")
            fails.append({"sig": "C31 abipkgdiff race %s %s" % (site.split("(")[0][:60], e["scenario"]),
                          "what": "ThreadSanitizer reports a data race in free-running abipkgdiff on scenario %s: %s" % (e["scenario"], txt[:900])})
        return {"evaluations": 4, "nontrivial_count": 1, "outcomes": {"tsan-races-%d" % min(races, 1): 1}, "failures": fails}
    # reference: --no-parallel, default schedule
    rc, out, err = _harness(ctx, ["replay", "1", "", scratch, "--", "--no-parallel"] + common, 120)
    try:
        ref = json.loads(out.strip().splitlines()[0])
    except (ValueError, IndexError):
        raise core.HarnessError("pkgdiff_harness replay: rc=%s %r %r" % (rc, out[-300:], err[-300:]))
    if ref["status"] != "OK":
        raise core.HarnessError("reference --no-parallel run failed: %s" % ref)
    if e["mode"] == "replay":
        rc, out, err = _harness(ctx, ["replay", str(e["nproc"]), e["choices"], scratch, "--"] + common, 300)
        r = json.loads(out.strip().splitlines()[0])
        bad = r["status"] != "OK" or r["rc"] != ref["rc"] or r["out"] != ref["out"]
        fails = []
        if bad:
            kind = r["status"].lower() if r["status"] != "OK" else "mismatch:report"
            fails.append({"sig": "C31 abipkgdiff %s parallel-vs-sequential %s" % (kind, e["scenario"]),
                          "what": "schedule [%s] with %d workers: status=%s rc=%s (sequential rc=%s); output differs=%s" % (e["choices"], e["nproc"], r["status"], r["rc"], ref["rc"], r["out"] != ref["out"])})
        return {"evaluations": 1, "nontrivial_count": 1, "failures": fails}
    cap = 0
    tmo = max(60, ctx.time_left())
    rc, out, err = _harness(ctx, ["explore", str(e["nproc"]), str(e["dev"]), str(cap), scratch, "--"] + common, tmo)
    if rc == "timeout":
        return {"evaluations": 0, "nontrivial_count": 0, "outcomes": {"timeout": 1}, "failures": [], "extra": {"configs_not_completed": 1}}
    try:
        r = json.loads(out.strip().splitlines()[-1])
    except (ValueError, IndexError):
        raise core.HarnessError("pkgdiff_harness explore: rc=%s %r %r" % (rc, out[-300:], err[-300:]))
    fails = []
    if r["ref_rc"] != ref["rc"] or r["ref_out"] != ref["out"]:
        fails.append({"sig": "C31 abipkgdiff mismatch:report parallel-vs-sequential %s" % e["scenario"],
                      "what": "default schedule with %d workers differs from --no-parallel: rc %s vs %s" % (e["nproc"], r["ref_rc"], ref["rc"]),
                      "element": dict(e, mode="replay", choices="")})
    for v in r["violations"]:
        kind = "mismatch:report" if v["what"].startswith("output/exit") else v["what"].split(":")[0].lower()
        fails.append({"sig": "C31 abipkgdiff %s parallel-vs-sequential %s" % (kind, e["scenario"]),
                      "what": "scenario %s, %d workers, schedule [%s]: %s" % (e["scenario"], e["nproc"], v["choices"], v["what"]),
                      "element": dict(e, mode="replay", choices=v["choices"])})
    return {"evaluations": r["schedules"], "nontrivial_count": 1, "outcomes": {"distinct-outputs-%d" % r["distinct_outcomes"]: 1}, "failures": fails,
            "extra": {"states": r["schedules"], "transitions": r["choice_points"], "traces_validated_against_impl": r["schedules"],
                      "configs_not_completed": 0 if r["completed"] else 1},
            "sample": {"scenario": e["scenario"], "nproc": e["nproc"], "deviations": e["dev"], "schedules": r["schedules"], "choice_points": r["choice_points"], "exit_status": r["ref_rc"]}}


def finalize(ctx, cov):
    cov.setdefault("states", 0)
    cov.setdefault("transitions", 0)
    cov.setdefault("traces_validated_against_impl", 0)
    if cov.get("configs_not_completed"):
        cov["exhaustive"] = False
