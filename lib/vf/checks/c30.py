"""C30 — abipkgdiff's verdict covers every binary in the packages."""
import itertools
import os
import re
import shutil

from .. import cbuild, core, toolrun

LEVEL = "exploration"
ENGINE = "progspace"
TECHNIQUE = "bounded exhaustive exploration: every assignment of {same, harmless, compatible change, incompatible change, removed} to the binaries of a 3-library (+1 executable in thorough) package x {no, one} added binary x {parallel, --no-parallel}; oracle = OR of abidiff's exit status on each matched pair and of the removal bits"
RULE = ("package 1 = usr/lib/lib{a,b,c}.so (+ usr/bin/tool in thorough) plus two never-changing anchors usr/lib/libk.so and usr/bin/ktool (they keep the packages' common directory prefix stable), all libraries with a SONAME and of different sizes; a second stage has no anchors and removes the only binary of a directory; package 2 = per binary one of: identical file, harmless change (parameter renamed), compatible change (function added), "
        "incompatible change (struct member inserted), binary removed; optionally one added library. Both option sets {default, --no-parallel} (with --no-default-suppression). Oracle: exit status == OR over matched pairs of abidiff's exit "
        "status on that pair | (12 if some binary is removed); each pair with a non-zero abidiff status is introduced by a \"changes of '<name>'\" banner and no other pair is; every removed binary is listed under 'Removed binaries', "
        "every added one under 'Added binaries'. Non-trivial: configurations with at least one change or removal.")
TEXT = "Complete cross of the per-binary alphabet over all binaries of the package."
NOTE = "Directories stand for extracted packages (the RPM/DEB/tar front ends only differ in extraction, which is outside this property)."

SRC = {
    "a": 'struct SA { int x; };\nint fa(struct SA* s, int n) { return s->x + n; }\nint ga_v = 1;\n',
    "b": 'struct SB { long x; char c; };\nint fb(struct SB* s, int n) { return (int)s->x + n; }\nint fb2(void) { return 2; }\nchar pad_b[300];\n',
    "c": 'struct SC { char c; };\nint fc(struct SC* s, int n) { return s->c + n; }\nint fc2(void) { return 2; }\nint fc3(void) { return 3; }\nchar pad_c[900];\n',
    "k": 'int fk(void) { return 1; }\n',
    "l": 'int fl(void) { return 1; }\nint main(void) { return 0; }\n',
    "t": 'struct ST { short c; };\nint ft(struct ST* s, int n) { return s->c + n; }\nint main(void) { return 0; }\n',
}
PATHS = {"a": "usr/lib/liba.so", "b": "usr/lib/libb.so", "c": "usr/lib/libc.so", "t": "usr/bin/tool", "k": "usr/lib/libk.so", "l": "usr/bin/ktool"}
STATES_Q = ["same", "compat", "incompat", "removed"]
STATES_T = ["same", "harmless", "compat", "incompat", "removed"]


def _variant(k, st):
    s = SRC[k]
    if st == "harmless":
        return s.replace(", int n)", ", int count)").replace("+ n;", "+ count;")
    if st == "compat":
        return s + "int added_%s(void) { return 7; }\n" % k
    if st == "incompat":
        return s.replace("{ ", "{ int inserted; ", 1)
    return s


def _bin(k, st):
    name = os.path.basename(PATHS[k])
    if k in "tl":
        return cbuild.compile_units([("t.c", _variant(k, st), ["-g"])], link_flags=["-pie", "-rdynamic"], out_name=name, kind="exe", tag="c30")
    return cbuild.shared_c(_variant(k, st), name=name, link=["-Wl,-soname," + name], tag="c30")


def prepare(ctx):
    toolrun.tool("plain", "abipkgdiff")
    toolrun.tool("plain", "abidiff")


def stages(ctx):
    keys = ["a", "b", "c"] if ctx.quick else ["a", "b", "c", "t"]
    states = STATES_Q if ctx.quick else STATES_T
    el = []
    for asg in itertools.product(states, repeat=len(keys)):
        for added in (0, 1):
            el.append({"keys": keys + ["k", "l"], "asg": list(asg) + ["same", "same"], "added": added})
    # packages whose common directory prefix changes when a binary disappears (no anchors)
    sh = []
    for st in ("same", "compat", "incompat"):
        for keys2 in (["a", "t"], ["a", "b", "t"]):
            sh.append({"keys": keys2, "asg": [st] + ["same"] * (len(keys2) - 2) + ["removed"], "added": 0, "scen": "prefix-shift"})
    return [("all-assignments", el), ("removal-shifts-common-prefix", sh)]


_pair = {}


def _pair_status(ctx, k, st):
    key = (k, st)
    if key not in _pair:
        rc, out, err = toolrun.run_tool(ctx, "plain", "abidiff", ["--no-default-suppression", _bin(k, "same"), _bin(k, st)], fast=True)
        _pair[key] = rc
    return _pair[key]


def evaluate(ctx, e):
    keys, asg, added = e["keys"], e["asg"], e["added"]
    scen = e.get("scen", "anchored")
    d = ctx.tmpdir("c30")
    p1, p2 = os.path.join(d, "pkg1"), os.path.join(d, "pkg2")
    for k, st in zip(keys, asg):
        for root, s in ((p1, "same"), (p2, st)):
            if s == "removed":
                continue
            dst = os.path.join(root, PATHS[k])
            os.makedirs(os.path.dirname(dst), exist_ok=True)
            shutil.copy(_bin(k, s), dst)
    os.makedirs(os.path.join(p2, "usr", "lib"), exist_ok=True)
    os.makedirs(os.path.join(p1, "usr", "lib"), exist_ok=True)
    if added:
        shutil.copy(cbuild.shared_c("int fz(void) { return 0; }\n", name="libz.so", link=["-Wl,-soname,libz.so"], tag="c30"), os.path.join(p2, "usr", "lib", "libz.so"))
    exp = 0
    for k, st in zip(keys, asg):
        if st == "removed":
            exp |= 12
        elif st != "same":
            rc = _pair_status(ctx, k, st)
            if not isinstance(rc, int) or rc < 0 or rc & 3:
                raise core.HarnessError("abidiff on pair %s/%s: rc=%s" % (k, st, rc))
            if (st in ("compat", "incompat") and not rc & 4) or (st == "harmless" and rc):
                raise core.HarnessError("pair %s/%s not of its class: abidiff exit %s" % (k, st, rc))
            exp |= rc
    fails, outs = [], {}
    n = 0
    for oname, opts in (("parallel", []), ("no-parallel", ["--no-parallel"])):
        rc, out, err = toolrun.run_tool(ctx, "plain", "abipkgdiff", ["--no-default-suppression"] + opts + [p1, p2], spawn=True, timeout=120)
        out = out.decode(errors="replace")
        n += 1
        desc = "%s added=%d %s" % (dict(zip(keys, asg)), added, oname)
        cls = "+".join(sorted(set(s for s in asg if s != "same"))) or "identical"
        if not isinstance(rc, int) or rc < 0:
            o, site, _ = toolrun.classify(rc, err)
            fails.append({"sig": "C30 abipkgdiff %s %s" % (o, site), "what": "%s: %s" % (desc, err[-300:])})
            continue
        ok = True
        if rc != exp:
            fails.append({"sig": "C30 abipkgdiff exit-mismatch %s %s expected-%d-got-%d" % (scen, cls, exp, rc), "what": "%s: exit %s, expected %s (OR of abidiff on each pair and removal bits)\n%s" % (desc, rc, exp, out[:400])})
            ok = False
        for k, st in zip(keys, asg):
            name = os.path.basename(PATHS[k])
            banner = re.search(r"changes of '%s'" % re.escape(name), out) is not None
            if st == "removed":
                if not re.search(r"Removed binaries:\n(?:  \[D\].*\n)*?  \[D\] /?%s," % re.escape(PATHS[k]), out):
                    fails.append({"sig": "C30 abipkgdiff removed-binary-not-listed %s" % cls, "what": "%s: %s missing from 'Removed binaries'\n%s" % (desc, PATHS[k], out[:400])})
                    ok = False
            else:
                want = st not in ("same", "harmless")
                if banner != want:
                    fails.append({"sig": "C30 abipkgdiff per-binary-verdict-%s %s %s" % ("missing" if want else "spurious", scen, st), "what": "%s: banner for %s %s\n%s" % (desc, name, "absent" if want else "present", out[:400])})
                    ok = False
        if added and not re.search(r"Added binaries:\n(?:  \[A\].*\n)*?  \[A\] /?usr/lib/libz.so,", out):
            fails.append({"sig": "C30 abipkgdiff added-binary-not-listed %s" % cls, "what": "%s\n%s" % (desc, out[:400])})
            ok = False
        k_ = "exit%d:%s" % (rc, "ok" if ok else "wrong")
        outs[k_] = outs.get(k_, 0) + 1
    shutil.rmtree(d, ignore_errors=True)
    nt = n if any(s != "same" for s in asg) else 0
    return {"evaluations": n, "nontrivial_count": nt, "outcomes": outs, "failures": fails, "sample": {"assignment": dict(zip(keys, asg)), "added": added, "expected_exit": exp}}
