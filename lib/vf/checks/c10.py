"""C10 — report summaries agree with the listed entries."""
import os
import re

from .. import core, pscommon as pc, report_parser

LEVEL = "exploration"
ENGINE = "progspace"
TECHNIQUE = "bounded exhaustive exploration: every mixed pack of breaking edges, both directions, with and without suppression specifications that filter a subset, full report vs --stat"
RULE = ("packs of ~24 units mixing changed and removed interfaces (forward) / added interfaces (backward), also built without debug info (symbol sections); each compared with no suppression, "
        "with a suppression hiding a third of the functions by name_regexp, one hiding everything and one hiding all variables; oracle: for every category the summary's net count equals the number of listed entries "
        "and the section header count, no count is absurd (unsigned wrap-around), and the --stat output equals the summary lines of the full report. Non-trivial: every (pack, direction, suppression) run.")
TEXT = "Every report produced by the pack generator is parsed (unknown report lines fail loudly) and its arithmetic checked."
NOTE = "Counts of leaf-mode summaries are checked in C13."
SUPPRS = {"none": None,
          "third": "[suppress_function]\n  name_regexp = ^f_[0-9]*[0-2]$\n",
          "all-fns": "[suppress_function]\n  name_regexp = .*\n",
          "all-vars": "[suppress_variable]\n  name_regexp = .*\n"}


def prepare(ctx):
    from .. import toolrun
    toolrun.tool("plain", "abidiff")


def stages(ctx):
    packs = pc.mixed_packs(ctx.quick)
    return [("all-mixed-packs", [{"pack": p, "g": g} for p in packs for g in ((True, False) if not ctx.quick else (True,))] + [{"pack": p, "g": False} for p in packs[:3]])]


def evaluate(ctx, e):
    v1, v2, info = pc.build_pair(e["pack"], "breaking", flags=("-g",) if e["g"] else ())
    d = ctx.tmpdir("c10")
    fails, outs = [], {}
    n = 0
    for direction, (a, b) in (("fwd", (v1, v2)), ("bwd", (v2, v1))):
        for sname, stext in SUPPRS.items():
            opts = []
            if stext:
                sp = os.path.join(d, sname + ".suppr")
                with open(sp, "w") as f:
                    f.write(stext)
                opts = ["--suppressions", sp]
            rc, out, err = pc.abidiff(ctx, a, b, opts)
            n += 1
            if not isinstance(rc, int) or rc < 0 or (rc & 3):
                raise core.HarnessError("abidiff failed: rc=%s %s" % (rc, err[-300:]))
            try:
                rep = report_parser.parse(out)
            except report_parser.FormatError as ex:
                raise core.HarnessError("report format: %s" % ex)
            for cls, what in pc.summary_consistency(rep):
                fails.append({"sig": "C10 abidiff mismatch:%s %s-%s-%s" % (cls, direction, sname, "debug" if e["g"] else "nodebug"),
                              "what": "%s (pack of %d units, %s, suppression %s)" % (what, len(info), direction, sname)})
            rc2, out2, err2 = pc.abidiff(ctx, a, b, opts + ["--stat"])
            n += 1
            summ = "\n".join(l.strip() for l in out.splitlines() if "summary:" in l)
            stat = "\n".join(l.strip() for l in out2.splitlines() if l.strip())
            if summ != stat or rc2 != rc:
                fails.append({"sig": "C10 abidiff mismatch:stat-vs-full %s-%s" % (direction, sname),
                              "what": "--stat prints %r (exit %s) but the full report's summary is %r (exit %s)" % (stat[:300], rc2, summ[:300], rc)})
            outs["consistent" if not fails else "inconsistent"] = outs.get("consistent" if not fails else "inconsistent", 0) + 1
    return {"evaluations": n, "nontrivial_count": n // 2, "outcomes": outs, "failures": fails, "sample": {"units": len(info), "debug_info": e["g"], "first_edge": e["pack"][0]}}
