"""C29 — abicompat judges only the interfaces the application uses."""
import itertools
import os
import re

from .. import cbuild, core, pscommon as pc, progspace as ps, toolrun

LEVEL = "exploration"
ENGINE = "progspace"
TECHNIQUE = "bounded exhaustive exploration: libraries of 3 generated interfaces x every application (all 8 subsets of used interfaces, GOT and copy-relocation builds) x every single mutation and every pair of mutations (<= 2 deviations) in normal and weak mode; oracle from the generator's model (used set x mutated set)"
RULE = ("library = 3 units (function or variable + its types) drawn by a sliding window over the node catalogue so that every node kind appears at every position; application = executable linked against version 1 that calls / reads exactly the "
        "subset U (all 8 subsets; variables both through the GOT (-fPIC) and through a copy relocation (default PIE build)); version 2 = every single breaking edit or removal of one unit, and every pair of edits from a reduced alphabet "
        "(first type edit, signature edit, removal) on two units. Oracle, normal mode (abicompat APP LIB1 LIB2): no used unit mutated -> exit 0 and no output; some used unit mutated -> ABI-change bit set, its name is in the report, and the "
        "incompatible bit is set when a used interface was removed; no unused interface is named. Weak mode (abicompat --weak-mode APP LIB2): no used unit mutated -> exit 0; a used unit with a type edit -> ABI-change bit set. "
        "Versioned stage: libv.so exports foo@V1 (compat, takes struct TA) and foo@@V2 (default, takes struct TB); an application linked against the old library references foo@V1, one linked against the new one foo@V2; "
        "LIB2 grows TA, TB or both: the verdict (both modes) must depend exactly on the version the application references. Non-trivial: runs in which at least one unit is mutated and U is non-empty.")
TEXT = "Full cross of used-subsets x (all singles + reduced pairs) per library; libraries enumerate the node catalogue."
NOTE = "Weak mode cannot see removals (documented); those are only required in normal mode."


def prepare(ctx):
    toolrun.tool("plain", "abicompat")


def stages(ctx):
    if ctx.quick:
        base = [{"k": "struct", "m": ["i"], "p": "ptr"}, {"k": "struct", "m": ["c", "l"], "p": "var"}, {"k": "struct", "m": ["i", "p"], "p": "byval"},
                {"k": "union", "m": ["i", "d"], "p": "var"}, {"k": "struct", "m": ["l"], "p": "typedef"}, {"k": "struct", "m": ["c", "i"], "p": "fnptr"},
                {"k": "struct", "m": ["i", "c"], "p": "member"}, {"k": "union", "m": ["c", "l"], "p": "ptr"}]
        base += [{"sp": k} for k in range(len(ps.special_units()))][:4]
    else:
        base = [s for s in pc.all_specs(True)]
        base = base[::3]
    el = []
    n = len(base)
    for i in range(n):
        el.append({"specs": [base[i], base[(i + 1) % n], base[(i + 2) % n]]})
    ver = [{"kind": "versioned", "app": a, "mut": m} for a in ("old-app-uses-foo@V1", "new-app-uses-foo@V2") for m in (["v1"], ["v2"], ["v1", "v2"])]
    return [("libraries-x-used-subsets-x-mutations<=2", el), ("versioned-interface-compat-and-default-version", ver)]


def _ecls(label):
    return re.sub(r"(-[ic])?@.*$", "", label)


def _app_source(units, used):
    parts, body = [], []
    for i in used:
        u = units[i]
        parts.append(u.emit_types())
        if u.fn:
            f = u.fn
            pl = ", ".join(ps.cdecl(t, n) for n, t in f["params"]) or "void"
            if f.get("variadic"):
                pl = (pl + ", ...") if f["params"] else "int n0, ..."
            parts.append("extern %s(%s);" % (ps.cdecl(f["ret"], f["name"]), pl))
            blk = ["{"]
            args = []
            for n, t in f["params"]:
                blk.append("  %s; __builtin_memset(&%s, 0, sizeof %s);" % (ps.cdecl(t, n), n, n))
                args.append(n)
            if f.get("variadic") and not f["params"]:
                args.append("0")
            blk.append("  (void)%s(%s); r++;" % (f["name"], ", ".join(args)))
            blk.append("}")
            body.append("\n".join(blk))
        if u.var:
            parts.append("extern %s;" % ps.cdecl(u.var[1], u.var[0]))
            body.append("r += (int)*(volatile char*)&%s;" % u.var[0])
    return "%s\nint main(void) {\n  int r = 0;\n%s\n  return r;\n}\n" % ("\n".join(parts), "\n".join(body))


def _vlib(both, mut):
    """libv.so exporting foo@V1 (+ foo@@V2 when both): the old version takes struct TA, the new one struct TB."""
    src = ["struct TA { int a;%s };" % (" int grown;" if "v1" in mut else ""), "struct TB { long b;%s };" % (" int grown;" if "v2" in mut else ""),
           "int foo_v1_impl(struct TA* p) { return p != 0; }", '__asm__(".symver foo_v1_impl,foo@%sV1");' % ("" if both else "@")]
    if both:
        src += ["int foo_v2_impl(struct TB* p) { return p != 0; }", '__asm__(".symver foo_v2_impl,foo@@V2");']
    src.append("int zz_keep(void) { return 0; }")
    return cbuild.compile_units([("v.c", "\n".join(src) + "\n", ["-g"])], link_flags=["-Wl,--version-script=v.map", "-Wl,-soname,libv.so"], out_name="libv.so",
                                extra_files={"v.map": "V1 { local: *_impl; };\nV2 { } V1;\n"}, tag="c29v")


def _versioned(ctx, e):
    old = e["app"].startswith("old")
    linklib = _vlib(False, []) if old else _vlib(True, [])
    t = "TA" if old else "TB"
    fld = "a" if old else "b"
    app = cbuild.compile_units([("app.c", "struct %s { %s %s; };\nextern int foo(struct %s*);\nint main(void) { struct %s x; x.%s = 0; return foo(&x); }\n" % (t, "int" if old else "long", fld, t, t, fld), ["-g", "-fPIC"])],
                               link_flags=["-pie", "-L" + os.path.dirname(linklib), "-lv"], out_name="app", kind="exe", tag="c29v")
    lib1, lib2 = _vlib(True, []), _vlib(True, e["mut"])
    used = "v1" if old else "v2"
    hit = used in e["mut"]
    fails, outs = [], {}
    desc = "%s, LIB2 changes the type used by %s" % (e["app"], "+".join("foo@" + ("V1" if m == "v1" else "@V2") for m in e["mut"]))
    n = 0
    for mode, args in (("normal", [app, lib1, lib2]), ("weak", ["--weak-mode", app, lib2])):
        rc, out, err = toolrun.run_tool(ctx, "plain", "abicompat", args, fast=True)
        out = out.decode(errors="replace")
        n += 1
        if not isinstance(rc, int) or rc < 0 or rc & 3:
            fails.append({"sig": "C29 abicompat %s %s versioned" % (toolrun.classify(rc, err)[0] if not isinstance(rc, int) or rc < 0 else "error-exit", mode), "what": "%s: rc=%s %s" % (desc, rc, err[-300:])})
            continue
        if hit and not (rc & 4):
            fails.append({"sig": "C29 abicompat used-change-missed %s versioned-%s" % (mode, "compat-version" if old else "default-version"), "what": "%s: exit %s, nothing reported: %s" % (desc, rc, out[:300])})
            k = "missed"
        elif not hit and rc != 0:
            fails.append({"sig": "C29 abicompat verdict-affected-by-unused %s versioned-%s" % (mode, "compat-version" if old else "default-version"), "what": "%s: exit %s: %s" % (desc, rc, out[:400])})
            k = "flagged-unused"
        else:
            k = "reported" if hit else "clean"
        outs["versioned:%s:%s" % (mode, k)] = outs.get("versioned:%s:%s" % (mode, k), 0) + 1
    return {"evaluations": n, "nontrivial_count": n, "outcomes": outs, "failures": fails, "sample": e}


def evaluate(ctx, e):
    if e.get("kind") == "versioned":
        return _versioned(ctx, e)
    specs = e["specs"]
    units = [pc.unit_from_spec(s).rename(str(i)) for i, s in enumerate(specs)]
    lib1 = ps.build_pack(list(enumerate(units)))
    eds = []
    for i, s in enumerate(specs):
        u = pc.unit_from_spec(s)
        eds.append([(l, v.rename(str(i)), x) for l, v, x in pc.edits(u, "breaking")])
    muts = []   # list of dict unit-index -> (label, unit, exp)
    for i in range(3):
        for ed in eds[i]:
            muts.append({i: ed})
    red = []
    for i in range(3):
        r = []
        if eds[i]:
            r.append(eds[i][0])
        for ed in eds[i]:
            if ed[0] in ("add-parameter",):
                r.append(ed)
        if eds[i] and eds[i][-1] not in r:
            r.append(eds[i][-1])
        red.append(r)
    for i, j in itertools.combinations(range(3), 2):
        for a in red[i]:
            for b in red[j]:
                muts.append({i: a, j: b})
    apps = []
    for k in range(4):
        pass
    for used in itertools.chain.from_iterable(itertools.combinations(range(3), r) for r in range(4)):
        src = _app_source(units, used)
        modes = [("got", ["-g", "-fPIC"])]
        if any(units[i].var for i in used):
            modes.append(("copyreloc", ["-g", "-fPIE"]))
        for mname, fl in modes:
            app = cbuild.compile_units([("app.c", src, fl)], link_flags=["-pie", "-L" + os.path.dirname(lib1), "-lpack"], out_name="app", kind="exe", tag="c29")
            apps.append((used, mname, app))
    n = nt = 0
    outs, fails = {}, []

    def bump(k):
        outs[k] = outs.get(k, 0) + 1
    # baseline: identical library
    for used, mname, app in apps:
        rc, out, err = toolrun.run_tool(ctx, "plain", "abicompat", [app, lib1, lib1], fast=True)
        n += 1
        if rc != 0 or out.strip():
            fails.append({"sig": "C29 abicompat nonzero-on-identical normal %s" % mname, "what": "abicompat APP LIB1 LIB1 exits %s for used=%s specs=%s: %s" % (rc, list(used), specs, out[:300])})
    for mut in muts:
        us = [mut[i][1] if i in mut else units[i] for i in range(3)]
        lib2 = ps.build_pack(list(enumerate(us)))
        for used, mname, app in apps:
            um = [i for i in used if i in mut]
            unused_m = [i for i in mut if i not in used]
            desc = "used=%s mutated=%s specs=%s app=%s" % (list(used), dict((i, mut[i][0]) for i in mut), specs, mname)
            # ---- normal mode
            rc, out, err = toolrun.run_tool(ctx, "plain", "abicompat", [app, lib1, lib2], fast=True)
            out = out.decode(errors="replace")
            n += 1
            if used:
                nt += 1
            if not isinstance(rc, int) or rc < 0 or rc & 3:
                fails.append({"sig": "C29 abicompat %s normal" % (toolrun.classify(rc, err)[0] if not isinstance(rc, int) or rc < 0 else "error-exit"), "what": "%s: rc=%s %s" % (desc, rc, err[-300:])})
                continue
            if not um:
                if rc != 0 or out.strip():
                    cls = "+".join(sorted(set(_ecls(mut[i][0]) for i in unused_m)))
                    fails.append({"sig": "C29 abicompat verdict-affected-by-unused normal %s %s" % (mname, cls), "what": "%s: exit %s, report: %s" % (desc, rc, out[:400])})
                    bump("normal:unused-only:flagged")
                else:
                    bump("normal:unused-only:clean")
            else:
                ok = bool(rc & 4)
                names = [n_ for i in um for n_ in us[i].interfaces() or units[i].interfaces()]
                for i in um:
                    nm = units[i].interfaces()[0]
                    cls = _ecls(mut[i][0])
                    if not (rc & 4) or not re.search(r"\b%s\b" % nm, out):
                        fails.append({"sig": "C29 abicompat used-change-missed normal %s %s" % (mname, cls), "what": "%s: exit %s, %s not reported: %s" % (desc, rc, nm, out[:400])})
                        ok = False
                    elif mut[i][2] == "removed" and not (rc & 8):
                        fails.append({"sig": "C29 abicompat removal-not-incompatible normal %s %s" % (mname, cls), "what": "%s: exit %s" % (desc, rc)})
                        ok = False
                for i in unused_m:
                    nm = units[i].interfaces()[0]
                    if re.search(r"\b%s\b" % nm, out):
                        fails.append({"sig": "C29 abicompat unused-interface-reported normal %s %s" % (mname, _ecls(mut[i][0])), "what": "%s: %s is in the report: %s" % (desc, nm, out[:400])})
                        ok = False
                bump("normal:used-mutated:" + ("reported" if ok else "wrong"))
            # ---- weak mode
            rc, out, err = toolrun.run_tool(ctx, "plain", "abicompat", ["--weak-mode", app, lib2], fast=True)
            out = out.decode(errors="replace")
            n += 1
            if not isinstance(rc, int) or rc < 0 or rc & 3:
                fails.append({"sig": "C29 abicompat %s weak" % (toolrun.classify(rc, err)[0] if not isinstance(rc, int) or rc < 0 else "error-exit"), "what": "%s: rc=%s %s" % (desc, rc, err[-300:])})
                continue
            if not um:
                if rc != 0:
                    cls = "+".join(sorted(set(_ecls(mut[i][0]) for i in unused_m)))
                    fails.append({"sig": "C29 abicompat verdict-affected-by-unused weak %s %s" % (mname, cls), "what": "%s: exit %s, report: %s" % (desc, rc, out[:400])})
                bump("weak:unused-only:" + ("clean" if rc == 0 else "flagged"))
            else:
                tm = [i for i in um if mut[i][2] != "removed"]
                if tm:
                    if not (rc & 4):
                        cls = "+".join(sorted(set(_ecls(mut[i][0]) for i in tm)))
                        fails.append({"sig": "C29 abicompat exit0 weak-mode type-mismatch-missed %s %s" % (mname, cls), "what": "%s: exit %s: %s" % (desc, rc, out[:300])})
                        bump("weak:used-type-edit:missed")
                    else:
                        bump("weak:used-type-edit:reported")
                else:
                    bump("weak:used-removed-only:rc%s" % rc)
    return {"evaluations": n, "nontrivial_count": nt, "outcomes": outs, "failures": fails[:40], "sample": {"specs": specs, "libraries": len(muts), "apps": len(apps)}}
