"""C06 — ABI-neutral source edits are never reported."""
from .. import core, pscommon as pc, progspace as ps

LEVEL = "exploration"
ENGINE = "progspace"
TECHNIQUE = "bounded exhaustive exploration of the program-space transition system: every neutral edit of every node, both builds with the same compiler and flags; oracle: exit 0 and empty report"
RULE = ("nodes as in C05; edges = every ABI-neutral edit of every node: change the function body, rename parameters, shift source lines, add static function and variable, add an unused type, "
        "move the unit's definitions to the other translation unit; plus pack-level edits: reverse the order of all definitions, rotate it; plus programs whose two translation units define different file-local types of the same name (reached through a pointer, a typedef, a const pointer) with the edits: swap the link order, move a function together with its struct into a unit of its own (listed last / first), add a static helper. Units are packed ~40 per binary pair; a failing pack is "
        "split and each unit judged in isolation. Non-trivial: every edge.")
TEXT = "Every neutral edge is compiled (gcc -g, also clang -g in the thorough tier) and compared with abidiff default options; the oracle demands exit status 0 and no output at all."
NOTE = "Same compiler and flags on both sides, as the property requires; x86-64; C."
PACK = 40


def prepare(ctx):
    from .. import toolrun
    toolrun.tool("plain", "abidiff")


# programs in which two translation units define DIFFERENT types with the same name (file-local helper structs), reached
# through a pointer / typedef / const pointer; neutral edits re-arrange the translation units
def _same_name_variants():
    out = []
    for path, pa, pb in (("pointer", "struct ctx* c", "struct ctx* c"), ("typedef", "ctx_t* c", "ctx_t* c"), ("const-pointer", "const struct ctx* c", "const struct ctx* c")):
        td = "typedef struct ctx ctx_t;\n" if path == "typedef" else ""
        A = "struct ctx { int fd; int mode; };\n" + td + "int reader_mode(%s) { return c != 0; }\nint reader_open(int x) { return x; }\n" % pa
        B = "struct ctx { double ratio; long total; char tag; };\n" + td + "int writer_mode(%s) { return c != 0; }\nint writer_open(int x) { return x + 1; }\n" % pb
        A_rest = "int reader_open(int x) { return x; }\n"
        A_moved = "struct ctx { int fd; int mode; };\n" + td + "int reader_mode(%s) { return c != 0; }\n" % pa
        A_static = A + "static int helper_a(int v) { return v * 2; }\nint reader_open2(void);\n"
        base = [("reader.c", A), ("writer.c", B)]
        out.append((path, "swap-link-order", base, [("writer.c", B), ("reader.c", A)]))
        out.append((path, "move-function-with-its-struct-to-own-unit", base, [("reader.c", A_rest), ("writer.c", B), ("reader_mode.c", A_moved)]))
        out.append((path, "move-function-to-own-unit-listed-first", base, [("a_reader_mode.c", A_moved), ("reader.c", A_rest), ("writer.c", B)]))
        out.append((path, "add-static-helper", base, [("reader.c", A_static.replace("int reader_open2(void);\n", "")), ("writer.c", B)]))
    return out


def stages(ctx):
    specs = pc.all_specs(ctx.quick)
    edges = pc.edge_list(specs, "neutral")
    st = [("all-neutral-edges(gcc)", [{"pack": p, "cc": "gcc"} for p in pc.chunks(edges, PACK)] +
           [{"reorder": p, "how": h, "cc": "gcc"} for p in pc.chunks(specs, PACK) for h in ("reverse", "rotate")] +
           [{"samename": i, "cc": cc} for i in range(len(_same_name_variants())) for cc in (("gcc", "clang") if not ctx.quick else ("gcc",))])]
    if not ctx.quick:
        st.append(("all-neutral-edges(clang)", [{"pack": p, "cc": "clang"} for p in pc.chunks(edges, PACK)]))
    return st


def evaluate(ctx, e):
    fails, outs = [], {}
    if "samename" in e:
        from .. import cbuild
        path, edit, u1, u2 = _same_name_variants()[e["samename"]]
        v1 = cbuild.compile_units([(f, src, ["-g"]) for f, src in u1], link_flags=["-Wl,-soname,libio.so"], out_name="libio.so", cc=e["cc"], tag="c06s")
        v2 = cbuild.compile_units([(f, src, ["-g"]) for f, src in u2], link_flags=["-Wl,-soname,libio.so"], out_name="libio.so", cc=e["cc"], tag="c06s")
        n = 0
        for a, b, d in ((v1, v2, "fwd"), (v2, v1, "bwd")):
            rc, out, err = pc.abidiff(ctx, a, b)
            n += 1
            ok = rc == 0 and not out.strip()
            outs["silent" if ok else "reported"] = outs.get("silent" if ok else "reported", 0) + 1
            if not ok:
                fails.append({"sig": "C06 abidiff exit%s same-named-types-in-two-units %s %s/%s" % (rc, edit, e["cc"], path),
                              "what": "two units define different 'struct ctx' (reached through %s); the neutral edit '%s' (%s) is reported (exit %s): %s" % (path, edit, d, rc, out[:500])})
        return {"evaluations": n, "nontrivial_count": n, "outcomes": outs, "failures": fails, "sample": {"same-named": path, "edit": edit}}
    if "reorder" in e:
        us = [(idx, pc.unit_from_spec(s).rename(str(idx))) for idx, s in enumerate(e["reorder"])]
        us2 = list(reversed(us)) if e["how"] == "reverse" else us[len(us) // 2:] + us[:len(us) // 2]
        v1, v2 = ps.build_pack(us, cc=e["cc"]), ps.build_pack(us2, cc=e["cc"])
        rc, out, err = pc.abidiff(ctx, v1, v2)
        ok = rc == 0 and not out.strip()
        outs["silent" if ok else "reported"] = 1
        if not ok:
            fails.append({"sig": "C06 abidiff exit%s reorder-%s" % (rc, e["how"]), "what": "definitions in %s order reported as a change (exit %s): %s" % (e["how"], rc, out[:400])})
        return {"evaluations": 1, "nontrivial_count": 1, "outcomes": outs, "failures": fails}
    v1, v2, info = pc.build_pair(e["pack"], "neutral", cc=e["cc"])
    rc, out, err = pc.abidiff(ctx, v1, v2)
    if not isinstance(rc, int) or rc < 0 or (rc & 3):
        raise core.HarnessError("abidiff failed on a compiler-produced pair: rc=%s %s" % (rc, err[-300:]))
    if rc == 0 and not out.strip():
        return {"evaluations": len(info), "nontrivial_count": len(info), "outcomes": {"silent": len(info)}, "failures": [],
                "sample": {"spec": info[0][4], "edit": info[0][5], "cc": e["cc"]}}
    if len(info) == 1:
        idx, u1, u2, exp, spec, label = info[0]
        path = spec.get("p", "special%s" % spec.get("sp"))
        return {"evaluations": 1, "nontrivial_count": 1, "outcomes": {"reported": 1},
                "failures": [{"sig": "C06 abidiff exit%s %s %s/%s" % (rc, label, e["cc"], path),
                              "what": "neutral edit '%s' on %s (%s) is reported (exit %s): %s" % (label, u1.tag, e["cc"], rc, out[:500])}]}
    # split the pack
    n = 0
    for item in e["pack"]:
        r = evaluate(ctx, {"pack": [item], "cc": e["cc"]})
        n += 1
        for f in r["failures"]:
            f.setdefault("element", {"pack": [item], "cc": e["cc"]})
            fails.append(f)
        for k, v in r["outcomes"].items():
            outs[k] = outs.get(k, 0) + v
    if not fails:
        fails.append({"sig": "C06 abidiff exit%s pack-only" % rc, "what": "a pack of neutral edits is reported (exit %s) although every unit alone is silent: %s" % (rc, out[:400])})
    return {"evaluations": n, "nontrivial_count": n, "outcomes": outs, "failures": fails}
