"""C06 — ABI-neutral source edits are never reported."""
from .. import core, pscommon as pc, progspace as ps

LEVEL = "exploration"
ENGINE = "progspace"
TECHNIQUE = "bounded exhaustive exploration of the program-space transition system: every neutral edit of every node, both builds with the same compiler and flags; oracle: exit 0 and empty report"
RULE = ("nodes as in C05; edges = every ABI-neutral edit of every node: change the function body, rename parameters, shift source lines, add static function and variable, add an unused type, "
        "move the unit's definitions to the other translation unit; plus pack-level edits: reverse the order of all definitions, rotate it. Units are packed ~40 per binary pair; a failing pack is "
        "split and each unit judged in isolation. Non-trivial: every edge.")
TEXT = "Every neutral edge is compiled (gcc -g, also clang -g in the thorough tier) and compared with abidiff default options; the oracle demands exit status 0 and no output at all."
NOTE = "Same compiler and flags on both sides, as the property requires; x86-64; C."
PACK = 40


def prepare(ctx):
    from .. import toolrun
    toolrun.tool("plain", "abidiff")


def stages(ctx):
    specs = pc.all_specs(ctx.quick)
    edges = pc.edge_list(specs, "neutral")
    st = [("all-neutral-edges(gcc)", [{"pack": p, "cc": "gcc"} for p in pc.chunks(edges, PACK)] +
           [{"reorder": p, "how": h, "cc": "gcc"} for p in pc.chunks(specs, PACK) for h in ("reverse", "rotate")])]
    if not ctx.quick:
        st.append(("all-neutral-edges(clang)", [{"pack": p, "cc": "clang"} for p in pc.chunks(edges, PACK)]))
    return st


def evaluate(ctx, e):
    fails, outs = [], {}
    if "reorder" in e:
        us = [(idx, pc.unit_from_spec(s).rename(str(idx))) for idx, s in enumerate(e["reorder"])]
        us2 = list(reversed(us)) if e["how"] == "reverse" else us[len(us) // 2:] + us[:len(us) // 2]
        v1, v2 = ps.build_pack(us, cc=e["cc"]), ps.build_pack(us2, cc=e["cc"])
        rc, out, err = pc.abidiff(ctx, v1, v2)
        ok = rc == 0 and not out.strip()
        outs["silent" if ok else "reported"] = 1
        if not ok:
            fails.append({"sig": "C06 abidiff exit%s reorder-%s" % (rc, e["how"]), "what": "definitions in %s order reported as a change (exit %s): %s" % (e["how"], rc, out[:400])})
        return {"evaluations": 1, "nontrivial_count": 1, "outcomes": outs, "failures": fails}
    v1, v2, info = pc.build_pair(e["pack"], "neutral", cc=e["cc"])
    rc, out, err = pc.abidiff(ctx, v1, v2)
    if not isinstance(rc, int) or rc < 0 or (rc & 3):
        raise core.HarnessError("abidiff failed on a compiler-produced pair: rc=%s %s" % (rc, err[-300:]))
    if rc == 0 and not out.strip():
        return {"evaluations": len(info), "nontrivial_count": len(info), "outcomes": {"silent": len(info)}, "failures": [],
                "sample": {"spec": info[0][4], "edit": info[0][5], "cc": e["cc"]}}
    if len(info) == 1:
        idx, u1, u2, exp, spec, label = info[0]
        path = spec.get("p", "special%s" % spec.get("sp"))
        return {"evaluations": 1, "nontrivial_count": 1, "outcomes": {"reported": 1},
                "failures": [{"sig": "C06 abidiff exit%s %s %s/%s" % (rc, label, e["cc"], path),
                              "what": "neutral edit '%s' on %s (%s) is reported (exit %s): %s" % (label, u1.tag, e["cc"], rc, out[:500])}]}
    # split the pack
    n = 0
    for item in e["pack"]:
        r = evaluate(ctx, {"pack": [item], "cc": e["cc"]})
        n += 1
        for f in r["failures"]:
            f.setdefault("element", {"pack": [item], "cc": e["cc"]})
            fails.append(f)
        for k, v in r["outcomes"].items():
            outs[k] = outs.get(k, 0) + v
    if not fails:
        fails.append({"sig": "C06 abidiff exit%s pack-only" % rc, "what": "a pack of neutral edits is reported (exit %s) although every unit alone is silent: %s" % (rc, out[:400])})
    return {"evaluations": n, "nontrivial_count": n, "outcomes": outs, "failures": fails}
