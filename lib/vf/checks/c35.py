"""C35 — analysing compiler output is free of memory errors and undefined behaviour."""
import os
import shutil

from .. import core, pscommon as pc, seeds, toolrun

LEVEL = "exploration"
ENGINE = "progspace"
TECHNIQUE = "bounded exhaustive exploration on the ASan+UBSan build: every node binary of the program space (catalogue packs and seed programs x compilers x DWARF versions) through abidw / abilint / abidiff and every breaking-edit pack pair through abidiff (3 option sets) and abipkgdiff; oracle = no sanitizer report, no signal"
RULE = ("nodes: pscommon.node_binary_specs (packs of 40 catalogue units and the C/C++ seed programs, gcc and clang, default/4/5 DWARF in thorough). Per node: abidw {default, --load-all-types, --annotate --type-id-style hash}, abilint of the emitted ABIXML, "
        "abidiff node node, abidiff ABIXML node. Per mixed pack pair (changed + removed interfaces; both directions): abidiff {default, --leaf-changes-only --impacted-interfaces, --harmless --redundant --no-default-suppression}, "
        "abipkgdiff on directories holding the pair. All on the -fsanitize=address,undefined build (halt on first report). Oracle: the run ends by exit with no 'ERROR: AddressSanitizer' / 'runtime error:' report; "
        "reports whose innermost frame is in a third-party library are tallied separately. Non-trivial: every run.")
TEXT = "Every node and every pack pair of the tier's program space."
NOTE = "Leaks are not part of the property (detect_leaks=0)."


def prepare(ctx):
    for t in ("abidw", "abilint", "abidiff", "abipkgdiff"):
        toolrun.tool("asan", t)


def stages(ctx):
    nodes = [{"kind": "node", "b": b} for b in pc.node_binary_specs(ctx.quick)]
    packs = pc.mixed_packs(ctx.quick)
    if ctx.quick:
        packs = packs[::3]
    pairs = [{"kind": "pair", "pack": p} for p in packs]
    return [("node-binaries", nodes), ("edit-pack-pairs", pairs)]


def _judge(tool, desc, rc, err, fails, outs, opt=""):
    c = toolrun.classify(rc, err)
    if c is None:
        outs["clean-exit"] = outs.get("clean-exit", 0) + 1
        return
    outcome, where, owner = c
    outs[outcome] = outs.get(outcome, 0) + 1
    if owner == "third_party":
        outs["third-party"] = outs.get("third-party", 0) + 1
        return
    e = err.decode(errors="replace") if isinstance(err, bytes) else err
    fails.append({"sig": "C35 %s %s %s" % (tool, outcome, where), "what": "%s %s on %s: %s" % (tool, opt, desc, e[-500:].replace("\n", " | "))})


def evaluate(ctx, e):
    fails, outs = [], {}
    n = 0
    d = ctx.tmpdir("c35")
    if e["kind"] == "node":
        b = e["b"]
        path = pc.node_binary(b)
        xml = None
        for opts in ([], ["--load-all-types"], ["--annotate", "--type-id-style", "hash"]):
            rc, out, err = toolrun.run_tool(ctx, "asan", "abidw", opts + ["--no-corpus-path", path], timeout=120, fast=True)
            n += 1
            _judge("abidw", b["id"], rc, err, fails, outs, " ".join(opts))
            if not opts and rc == 0:
                xml = os.path.join(d, "n.abi")
                with open(xml, "wb") as f:
                    f.write(out)
        runs = [("abidiff", [path, path])]
        if xml:
            runs += [("abilint", [xml]), ("abidiff", [xml, path]), ("abilint", ["--noout", xml])]
        for tool, args in runs:
            rc, out, err = toolrun.run_tool(ctx, "asan", tool, args, timeout=120, fast=True)
            n += 1
            _judge(tool, b["id"], rc, err, fails, outs)
    else:
        v1, v2, info = pc.build_pair(e["pack"], "breaking")
        desc = "pack of %d edits starting with %s" % (len(e["pack"]), e["pack"][0])
        for a, b in ((v1, v2), (v2, v1)):
            for opts in ([], ["--leaf-changes-only", "--impacted-interfaces"], ["--harmless", "--redundant", "--no-default-suppression"]):
                rc, out, err = toolrun.run_tool(ctx, "asan", "abidiff", opts + [a, b], timeout=120, fast=True)
                n += 1
                _judge("abidiff", desc, rc, err, fails, outs, " ".join(opts))
        p1, p2 = os.path.join(d, "p1", "lib"), os.path.join(d, "p2", "lib")
        os.makedirs(p1)
        os.makedirs(p2)
        shutil.copy(v1, os.path.join(p1, "libpack.so"))
        shutil.copy(v2, os.path.join(p2, "libpack.so"))
        for opts in ([], ["--no-parallel", "--leaf-changes-only"]):
            rc, out, err = toolrun.run_tool(ctx, "asan", "abipkgdiff", opts + [os.path.join(d, "p1"), os.path.join(d, "p2")], timeout=180)
            n += 1
            _judge("abipkgdiff", desc, rc, err, fails, outs, " ".join(opts))
    shutil.rmtree(d, ignore_errors=True)
    return {"evaluations": n, "nontrivial_count": n, "outcomes": outs, "failures": fails[:10], "sample": {"kind": e["kind"], "id": e.get("b", {}).get("id") if e["kind"] == "node" else len(e["pack"])}}
