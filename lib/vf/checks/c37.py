"""C37 — hash-table symbol lookup agrees with the symbol table."""
import re
import struct

from .. import cbuild, core, elf, pscommon as pc, readelf, toolrun

LEVEL = "exploration"
ENGINE = "progspace"
TECHNIQUE = "bounded exhaustive exploration: shared objects of 1..257 symbols x hash style {sysv, gnu, both} x linker {bfd, lld} x versioned / unversioned; queries = every defined name and, for every hash bucket, an absent name hashing into it; oracle = readelf --dyn-syms"
RULE = ("for n in {1,2,3,5,8,13,64,257} (quick: up to 64) functions and n/4 variables, optionally with default and non-default symbol versions, linked with --hash-style=sysv|gnu|both by ld.bfd and ld.lld; "
        "for every defined dynamic symbol name and for one absent name per SysV bucket and per GNU bucket (found by computing the hash functions), abisym (with and without --demangle) must find the name exactly when "
        "readelf lists a defined symbol of that name in .dynsym, and report the same set of versions. Non-trivial: every query on a defined name or on an absent name that collides with a bucket in use.")
TEXT = "Every name of every generated table is queried, plus one absent name per bucket of each hash table, so every chain is walked to its end."
NOTE = "Undefined imports are not judged (SysV tables hash them, GNU tables do not)."


def prepare(ctx):
    toolrun.tool("plain", "abisym")


def stages(ctx):
    ns = [1, 2, 3, 5, 8, 13, 64] + ([] if ctx.quick else [257])
    el = []
    for n in ns:
        for style in ("sysv", "gnu", "both"):
            for ld in ("bfd", "lld"):
                for versioned in (False, True):
                    el.append({"n": n, "style": style, "ld": ld, "versioned": versioned})
    return [("all-tables", el)]


def _build(e):
    n = e["n"]
    src = []
    for i in range(n):
        src.append("int fn%d(void) { return %d; }" % (i, i))
    for i in range(max(1, n // 4)):
        src.append("int var%d = %d;" % (i, i))
    extra, link = {}, []
    if e["versioned"]:
        src.append("int v1_impl(void) { return 1; } __asm__(\".symver v1_impl,vfn@V1\");")
        src.append("int v2_impl(void) { return 2; } __asm__(\".symver v2_impl,vfn@@V2\");")
        extra = {"m.map": "V1 { local: *_impl; };\nV2 { } V1;\n"}
        link = ["-Wl,--version-script=m.map"]
    return cbuild.compile_units([("h.c", "\n".join(src) + "\n", [])], link_flags=["-fuse-ld=" + e["ld"], "-Wl,--hash-style=" + e["style"], "-Wl,-soname,libh.so"] + link,
                                out_name="libh.so", extra_files=extra, tag="c37")


def _absent_names(path, defined):
    """One absent name per bucket of each hash table present."""
    ef = elf.Elf(open(path, "rb").read())
    out = []
    h = ef.section(".hash")
    if h:
        nb = struct.unpack_from("<I", ef.section_data(h), 0)[0]
        need = set(range(nb))
        i = 0
        while need and i < 200000:
            nm = "zq%d" % i
            b = elf.sysv_hash(nm) % nb
            if b in need and nm not in defined:
                need.discard(b)
                out.append(nm)
            i += 1
    g = ef.section(".gnu.hash")
    if g:
        nb = struct.unpack_from("<I", ef.section_data(g), 0)[0]
        need = set(range(nb))
        i = 0
        while need and i < 200000:
            nm = "zg%d" % i
            b = elf.gnu_hash(nm) % nb
            if b in need and nm not in defined:
                need.discard(b)
                out.append(nm)
            i += 1
    # near misses of defined names
    for d in list(defined)[:20]:
        out += [d + "x", d[:-1]] if len(d) > 1 else [d + "x"]
    return [x for x in out if x and x not in defined]


def evaluate(ctx, e):
    path = _build(e)
    dyn = {}
    for s in readelf.tables(path).get(".dynsym", []):
        if s["ndx"] != "UND" and s["name"] and not (s["ndx"] == "ABS" and s["type"] == "OBJECT"):
            dyn.setdefault(s["name"], set())
            if s["version"]:
                dyn[s["name"]].add(s["version"])
    cls = "%s-%s-n%d%s" % (e["style"], e["ld"], e["n"], "-versioned" if e["versioned"] else "")
    fails, outs = [], {}
    n = nt = 0
    queries = [(q, True) for q in sorted(dyn)] + [(q, False) for q in _absent_names(path, set(dyn))]
    for q, present in queries:
        for opts in ([], ["--demangle"]):
            rc, out, err = pc.run(ctx, "abisym", opts + [path, q])
            n += 1
            txt = out.decode(errors="replace")
            found = "found symbol '" in txt and "could not find" not in txt
            vers = set(re.findall(r"'([^']+)'", txt.split("of versions", 1)[1])) if "of versions" in txt else set()
            if present:
                nt += 1
            if rc != 0 or found != present:
                fails.append({"sig": "C37 abisym mismatch:%s %s%s" % ("defined-not-found" if present else "absent-found", cls, "-demangle" if opts else ""),
                              "what": "abisym %s %s: rc=%s %r but readelf says the name is %s" % (" ".join(opts), q, rc, txt.strip()[:120], "defined" if present else "absent")})
            elif present and vers != dyn[q]:
                fails.append({"sig": "C37 abisym mismatch:versions %s%s" % (cls, "-demangle" if opts else ""), "what": "abisym %s: versions %s, readelf %s" % (q, sorted(vers), sorted(dyn[q]))})
            outs["found" if found else "not-found"] = outs.get("found" if found else "not-found", 0) + 1
    return {"evaluations": n, "nontrivial_count": nt, "outcomes": outs, "failures": fails[:6], "sample": {"table": cls, "queries": len(queries)}}
