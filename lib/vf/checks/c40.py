"""C40 — hash-style type ids identify types independently of the document."""
import itertools
import re

from .. import abixml, core, pscommon as pc, progspace as ps, seeds, toolrun

LEVEL = "exploration"
ENGINE = "progspace"
TECHNIQUE = "bounded exhaustive exploration: every node of the type catalogue placed in three different documents (alone, and with two different sets of neighbour types; gcc and clang) and every seed program in its two versions; oracle = equality of the hash id of every type with the same spelling across documents, a difference being excused only by a demonstrated probe sequence (all ids between the smaller and the larger one are taken in that document)"
RULE = ("struct node with members of type pointer-to-anonymous-struct/union/enum, alone and after 1-3 other anonymous types (the ordinals of anonymous names shift, the internal names do not); three pairs of struct names with colliding FNV-1a hashes (documents with both, in both orders, and with each alone) exercise the exception clause; for each catalogue node u: documents D1 = abidw --type-id-style hash of the binary [u], D2 = [u, n1, n2], D3 = [u, n3, n4] (neighbours from a rotating window over the catalogue, so the document contents, type order and "
        "number of types differ), D4 = D2 compiled with clang; plus each seed program v1 / v2 pair. Types are identified by their spelling reconstructed from the ABIXML by an independent reader (the per-document ordinal of anonymous type names is stripped; a spelling carried by several types of one document is not compared). "
        "Oracle: a spelling present in two documents has the same id in both, unless in the document with the larger id every id from the smaller one up to it is in use (linear probing after a collision); ids are 8+ hex digits; "
        "ids are unique within a document. Non-trivial: every (type, document pair) comparison.")
TEXT = "All catalogue nodes x 4 document contexts; all seeds."
NOTE = "The spelling is the oracle's own (struct S_0, S_0*, const int, int(S_0*)...); two types with equal spelling here have equal libabigail internal names for the C subset generated."
TAGS = ("type-decl", "class-decl", "union-decl", "enum-decl", "typedef-decl", "pointer-type-def", "reference-type-def", "qualified-type-def", "array-type-def", "function-type")


# pairs of struct names whose internal names ("class <name>") have the same 32-bit FNV-1a hash (found by search, re-validated below)
COLLIDING = [("qlgxyada", "qivkymyo"), ("qeldtdhq", "qxwtmnqk"), ("qnonkjju", "qgtriwzj")]


def _fnv(s):
    h = 0x811c9dc5
    for b in s.encode():
        h = ((h ^ b) * 0x01000193) & 0xffffffff
    return h


def prepare(ctx):
    toolrun.tool("plain", "abidw")


def stages(ctx):
    specs = pc.all_specs(ctx.quick)
    if ctx.quick:
        specs = specs[::2]
    n = len(specs)
    el = [{"kind": "node", "u": specs[i], "n": [specs[(i + 7) % n], specs[(i + 13) % n], specs[(i + 29) % n], specs[(i + 31) % n]]} for i in range(n)]
    sd = [{"kind": "seed", "name": s} for s in seeds.all_names()]
    co = [{"kind": "collision", "pair": list(p)} for p in COLLIDING]
    an = [{"kind": "anon", "extra": k} for k in (1, 2, 3)]
    if ctx.quick:
        return [("catalogue-nodes-x-4-contexts", el), ("seed-programs-v1-v2", sd), ("forced-fnv-collisions", co), ("types-derived-from-anonymous-types", an)]
    # thorough: the small stages first, then the catalogue in four disjoint quarters so that a deadline leaves completed bounds
    return [("seed-programs-v1-v2", sd), ("forced-fnv-collisions", co), ("types-derived-from-anonymous-types", an)] + \
           [("catalogue-nodes-x-4-contexts(nodes %d mod 4)" % k, el[k::4]) for k in range(4)]


def _ids(ctx, path):
    rc, out, err = pc.run(ctx, "abidw", ["--type-id-style", "hash", "--no-corpus-path", path])
    if rc != 0:
        raise core.HarnessError("abidw --type-id-style hash failed: rc=%s %s" % (rc, err[-300:]))
    doc = abixml.Doc(out)
    m, used, dup = {}, set(), []
    for i, el in doc.by_id.items():
        if el.tag not in TAGS:
            continue
        if not re.match(r"^[0-9a-f]{8,16}$", i):
            dup.append("malformed id %r" % i)
            continue
        used.add(int(i, 16))
        s = el.tag.split("-")[0] + ":" + doc.type_string(i)
        if "?" in s:
            continue
        # the name attribute of an anonymous type carries a per-document ordinal that is not part of its internal name
        s = re.sub(r"(__anonymous_(?:struct|union|enum)__)\d*", r"\1", s)
        if el.attrib.get("is-declaration-only") == "yes":
            s += " (declaration)"
        m.setdefault(s, set()).add(int(i, 16))
    return m, used, dup


def _compare(docs, fails, what):
    n = 0
    outs = {}
    for (na, (ma, ua, da)), (nb, (mb, ub, db)) in itertools.combinations(docs, 2):
        for s in set(ma) & set(mb):
            n += 1
            if ma[s] == mb[s]:
                outs["same-id"] = outs.get("same-id", 0) + 1
                continue
            if len(ma[s]) != 1 or len(mb[s]) != 1:
                outs["several-types-one-spelling"] = outs.get("several-types-one-spelling", 0) + 1
                continue
            a, b = next(iter(ma[s])), next(iter(mb[s]))
            lo, hi, uh = (a, b, ub) if a < b else (b, a, ua)
            if hi - lo < 64 and all(x in uh for x in range(lo, hi)):
                outs["collision-probed"] = outs.get("collision-probed", 0) + 1
                continue
            outs["different-id"] = outs.get("different-id", 0) + 1
            fails.append({"sig": "C40 abidw id-differs %s" % s.split(":")[0], "what": "%s: type '%s' has id %08x in %s and %08x in %s without a collision" % (what, s, a, na, b, nb)})
    return n, outs


def evaluate(ctx, e):
    fails = []
    docs = []
    if e["kind"] == "node":
        u, nb = e["u"], e["n"]
        for name, pack, cc in (("alone", [u], "gcc"), ("with-n1-n2", [u, nb[0], nb[1]], "gcc"), ("with-n3-n4", [u, nb[2], nb[3]], "gcc"), ("with-n1-n2-clang", [u, nb[0], nb[1]], "clang")):
            path, us = pc.build_nodes(pack, cc=cc)
            docs.append((name, _ids(ctx, path)))
        what = "node %s" % (u,)
    elif e["kind"] == "anon":
        from .. import cbuild
        # struct node has a member whose type is a pointer to an anonymous struct (and an anonymous union / enum); the second
        # document defines k more anonymous types before it, which shifts the ordinals libabigail gives to anonymous types
        node = "struct node { struct node* next; struct { int x; int y; } *pos; union { int i; float f; } *alt; enum { N0, N1 } *kind; };\n"
        pre = ["struct extra1 { struct { char tag; } hdr; int v; };\n", "struct extra2 { union { char c; long l; } u; };\n", "struct extra3 { enum { E0, E1 } e; struct { short s; } in; };\n"]
        def lib(k, first):
            ex = "".join("struct extra%d* e%d, " % (j + 1, j + 1) for j in range(k))
            params = (ex + "struct node* n") if first else ("struct node* n, " + ex).rstrip(", ")
            src = "".join(pre[:k]) + node + "int use(%s) { return n->pos->x; }\n" % params
            return cbuild.shared_c(src, name="libanon.so", tag="c40")
        docs.append(("node-alone", _ids(ctx, lib(0, False))))
        docs.append(("node-with-%d-anonymous-reached-first" % e["extra"], _ids(ctx, lib(e["extra"], True))))
        docs.append(("node-with-%d-anonymous-reached-later" % e["extra"], _ids(ctx, lib(e["extra"], False))))
        what = "pointer-to-anonymous types of struct node, %d extra anonymous types before it" % e["extra"]
    elif e["kind"] == "collision":
        from .. import cbuild
        a, b = e["pair"]
        if _fnv("class " + a) != _fnv("class " + b):
            raise core.HarnessError("pair %s/%s does not collide" % (a, b))
        def lib(names):
            src = "".join("struct %s { int x; };\nint use_%s(struct %s* p) { return p->x; }\n" % (n_, n_, n_) for n_ in names)
            return cbuild.shared_c(src, name="libcol.so", tag="c40")
        for name, names in (("both-a-first", [a, b]), ("both-b-first", [b, a]), ("only-a", [a]), ("only-b", [b])):
            docs.append((name, _ids(ctx, lib(names))))
        what = "colliding structs %s %s (hash %08x)" % (a, b, _fnv("class " + a))
        ids = docs[0][1][0]
        got = sorted(next(iter(ids["class:struct " + x])) for x in (a, b))
        if got != [_fnv("class " + a), _fnv("class " + a) + 1]:
            fails.append({"sig": "C40 abidw collision-not-probed", "what": "%s: ids %s, expected the hash and the hash + 1" % (what, ["%08x" % g for g in got])})
    else:
        for name, v2 in (("v1", False), ("v2", True)):
            docs.append((name, _ids(ctx, seeds.build(e["name"], v2))))
        if seeds.SEEDS[e["name"]]["lang"] == "c":
            docs.append(("v1-clang", _ids(ctx, seeds.build(e["name"], False, cc="clang"))))
        what = "seed %s" % e["name"]
    for name, (m, used, dup) in docs:
        for d in dup:
            fails.append({"sig": "C40 abidw malformed-id", "what": "%s %s: %s" % (what, name, d)})
    n, outs = _compare(docs, fails, what)
    return {"evaluations": n, "nontrivial_count": n, "outcomes": outs, "failures": fails[:20], "sample": {"what": what, "documents": [d[0] for d in docs], "types": len(docs[0][1][0])}}
