"""C32 — the worker queue performs every task exactly once and always drains."""
import json
import os
import re
import sys

from .. import build, core, probe, sched

sys.path.insert(0, os.path.join(build.VERIF, "models"))
import bind  # noqa: E402

LEVEL = "model_checking"
ENGINE = "vsched"
TECHNIQUE = ("stateless preemption-bounded model checking of the real src/abg-workers.cc under a controlled scheduler (all interleavings at pthread calls, all signal-one waiter choices, "
             "spurious wake-ups, optional extra scheduling points after every unlock), plus a TLA+ model checked by TLC (safety, deadlock freedom, termination under weak fairness) bound to the code in both directions through TLC's state graph; ThreadSanitizer companion run")
RULE = ("direct: for each configuration (workers W, tasks T, usage style, preemption bound, spurious budget) depth-first enumeration of ALL schedules within the bound on the unmodified queue code; "
        "a state is a distinct key (per-thread histories incl. shared state read, mutex owners, waiter sets, queue contents, counters, remaining budget), a transition is a scheduling decision; "
        "oracle on every complete execution: wait returned, each task performed once, completed tasks a permutation, notifier once per task and never overlapping, no deadlock/livelock/abort. "
        "model: TLC explores WorkQ.tla completely for each (W,T,SPUR); binding replays every model edge on the code and walks every explored code trace through the model graph.")
TEXT = ("Exhaustive within stated bounds: quick = all schedules with <=2 preemptions for W,T<=2 (4 usage styles, spurious<=1) and <=1 for (3,2),(2,3),(3,3); "
        "thorough = <=3 preemptions for W,T<=2, <=2 for up to (3,3) and (2,4). TLC verdicts for (2,2,0),(1,2,1),(2,1,1),(2,3,1) [quick] and (3,3,1),(2,4,1),(3,4,0) [thorough] are "
        "counted only while the two-way binding to the implementation holds on this very run.")
NOTE = ("Interleavings are exhaustive only at synchronisation operations and sequentially consistent; unsynchronised accesses are delegated to the TSan companion (a detector, not an enumeration). "
        "A broken model binding (e.g. after a refactoring of the call sequence) demotes the TLC results, it is not a violation; the direct exploration then decides alone.")
ASSUMPTIONS = ["pthread mutex/condition semantics as modelled by vsched (signal wakes one arbitrary waiter, spurious wake-ups possible, no fairness)",
               "task::perform and the notifier touch only their own data"]
_exe = None
_tsan = None


def prepare(ctx):
    global _exe, _tsan
    _exe = sched.build_wq_harness()
    _tsan = probe.build_probe("tsan", "tsan_wq")


def _cfg(W, T, style, pb, spur, window=0):
    return {"mode": "explore", "W": W, "T": T, "style": style, "pb": pb, "spur": spur, "window": window}


def stages(ctx):
    small = [(W, T) for W in (0, 1, 2) for T in (0, 1, 2)]
    s1 = [_cfg(W, T, st, 1, sp) for (W, T) in small for st in (0, 1, 2, 3, 4) for sp in (0, 1)]
    s1 += [_cfg(W, T, 0, 1, 0) for (W, T) in ((3, 2), (2, 3), (3, 3), (1, 3), (1, 4))]
    s2 = [_cfg(W, T, st, 2, sp) for (W, T) in ((1, 1), (1, 2), (2, 1), (2, 2)) for st in (0, 2) for sp in (0, 1)]
    st = [("preempt<=1", s1 + [{"mode": "tsan", "maxw": 16, "rounds": 2}]),
          ("tlc+binding(W,T<=2)", [{"mode": "bind", "W": 2, "T": 2, "spur": 0}, {"mode": "bind", "W": 1, "T": 2, "spur": 1},
                                   {"mode": "bind", "W": 2, "T": 1, "spur": 1}, {"mode": "tlc", "W": 2, "T": 3, "spur": 1}]),
          ("preempt<=2(W,T<=2)", s2),
          # extra scheduling point after every unlock: exposes accesses to shared flags (e.g. atomics, which are not
          # intercepted) made right after leaving a critical section
          ("preempt<=2+post-unlock-windows", [_cfg(W, T, st, 2, 0, 1) for (W, T) in ((1, 0), (1, 1), (2, 0), (2, 1), (1, 2), (2, 2)) for st in (0, 2)])]
    if not ctx.quick:
        s3 = [_cfg(W, T, 0, 2, sp) for (W, T) in ((3, 2), (2, 3), (3, 3), (2, 4)) for sp in (0, 1)]
        s4 = [_cfg(W, T, st, 3, sp) for (W, T) in ((1, 2), (2, 1), (2, 2)) for st in (0, 2) for sp in (0, 1)]
        s4 += [_cfg(W, T, 0, 2, 1, 1) for (W, T) in ((2, 2), (3, 2), (2, 3))] + [_cfg(W, T, 0, 3, 0, 1) for (W, T) in ((1, 1), (2, 1), (1, 2))]
        st += [("tlc-large", [{"mode": "tlc", "W": 3, "T": 3, "spur": 1}, {"mode": "tlc", "W": 2, "T": 4, "spur": 1}, {"mode": "tlc", "W": 3, "T": 4, "spur": 0}]),
               ("preempt<=2(up to 3x3,2x4)", s3),
               ("preempt<=3(W,T<=2)", s4),
               ("tsan-long", [{"mode": "tsan", "maxw": 16, "rounds": 6}])]
    return st


def _sig(kind, e):
    return "C32 api %s queue W%d-T%d-style%d%s" % (kind, e["W"], e["T"], e["style"], "-postunlock" if e.get("window") else "")


def evaluate(ctx, e):
    if e["mode"] in ("explore", "replay"):
        if e["mode"] == "replay":
            rc, out, err = core.run([_exe, "replay", str(e["W"]), str(e["T"]), str(e["style"]), str(e["spur"]), e["choices"], str(e.get("window", 0))], timeout=120, ctx=ctx)
        else:
            rc, out, err = core.run([_exe, "explore", str(e["W"]), str(e["T"]), str(e["style"]), str(e["pb"]), str(e["spur"]), "0", str(e.get("window", 0))],
                                    timeout=max(60, ctx.time_left() + 30), ctx=ctx)
        lines = out.decode(errors="replace").strip().splitlines()
        if rc == "timeout":
            return {"evaluations": 0, "nontrivial_count": 0, "outcomes": {"timeout": 1}, "failures": [], "extra": {"configs_not_completed": 1}}
        try:
            r = json.loads(lines[-1])
        except (ValueError, IndexError):
            raise core.HarnessError("wq_harness output: rc=%s %r %r" % (rc, out[-300:], err[-300:]))
        if "error" in r:
            raise core.HarnessError("wq_harness: " + r["error"])
        fails = []
        for v in r["violations"]:
            el = dict(e, mode="replay", choices=v["choices"])
            fails.append({"sig": _sig(v["kind"], e), "what": "%s with W=%d T=%d style=%d under schedule [%s]: %s" % (v["kind"], e["W"], e["T"], e["style"], v["choices"], v["what"]), "element": el})
        return {"evaluations": r["schedules"], "nontrivial_count": 1 if r["finals"] > 1 or r["schedules"] > 1 else 0,
                "outcomes": {"finals-%d" % min(r["finals"], 9): 1}, "failures": fails,
                "extra": {"states": r["states"], "transitions": r["choice_points"], "schedules": r["schedules"], "configs": 1,
                          "configs_not_completed": 0 if r["completed"] else 1},
                "sample": {"config": e, "schedules": r["schedules"], "states": r["states"], "final_observations": r["finals"]}}
    if e["mode"] == "tsan":
        env = ctx.env(TSAN_OPTIONS="exitcode=97:halt_on_error=0:report_signal_unsafe=0")
        rc, out, err = core.run([_tsan, str(e["maxw"]), str(e["rounds"])], timeout=90 * e["rounds"], env=env)
        txt = err.decode(errors="replace")
        fails = []
        if rc == "timeout":
            fails.append({"sig": "C32 api hang queue free-running", "what": "the free-running (real pthreads, TSan) queue harness did not finish within %d s: waiting for the workers never returned" % (90 * e["rounds"])})
        elif "ThreadSanitizer: data race" in txt or rc == 97:
            m = re.search(r"#0 (\S+)", txt)
            fails.append({"sig": "C32 api race queue tsan", "what": "ThreadSanitizer reports a data race in the free-running queue harness: " + txt[:600]})
        elif rc != 0:
            fails.append({"sig": "C32 api mismatch:counts queue tsan", "what": "free-running harness failed: rc=%s %s" % (rc, out.decode(errors="replace")[-400:])})
        return {"evaluations": 1, "nontrivial_count": 1, "outcomes": {"tsan-rc%s" % rc: 1}, "failures": fails, "sample": {"tsan": out.decode(errors="replace")[-120:]}}
    wd = ctx.tmpdir("tlc")
    if e["mode"] == "bind":
        r = bind.bind(_exe, wd, e["W"], e["T"], e["spur"])
        tl = r.get("tlc", {})
        fails = []
        if r["bound"]:
            ex = {"states": r["model_states"], "transitions": r["model_edges"], "traces_validated_against_impl": r["edges_replayed_ok"] + r["impl_traces_ok"],
                  "model_bound_configs": 1}
        else:
            ex = {"model_binding_broken": 1}
            if tl.get("violated"):
                pass
            print("NOTE: property=C32 model binding broken for W=%d T=%d: %s" % (e["W"], e["T"], "; ".join(r["problems"][:2])[:400]))
        if tl and not tl.get("ok") and tl.get("violated") and r["bound"]:
            fails.append({"sig": "C32 model tlc-violation W%d-T%d" % (e["W"], e["T"]), "what": "TLC: %s" % tl.get("out", "")[-600:]})
        return {"evaluations": r.get("model_edges", 0) + r.get("impl_traces", 0), "nontrivial_count": 1, "outcomes": {"bound" if r["bound"] else "unbound": 1},
                "failures": fails, "extra": ex, "sample": {"binding": {k: v for k, v in r.items() if k not in ("tlc", "problems")}}}
    # plain TLC run on a larger configuration (verdict only counts if the small configurations are bound; recorded separately)
    tl = bind.run_tlc(wd, e["W"], e["T"], e["spur"], dump=False, workers=8, timeout=max(120, int(ctx.time_left()) - 10))
    fails = []
    if tl.get("timeout"):
        return {"evaluations": 0, "nontrivial_count": 0, "outcomes": {"tlc-timeout": 1}, "failures": [], "extra": {"tlc_not_completed": 1}}
    if not tl["ok"]:
        fails.append({"sig": "C32 model tlc-violation W%d-T%d" % (e["W"], e["T"]), "what": "TLC on WorkQ.tla W=%d T=%d SPUR=%d: %s" % (e["W"], e["T"], e["spur"], tl["out"][-700:])})
    return {"evaluations": tl.get("generated", 0), "nontrivial_count": 1, "outcomes": {"tlc-ok" if tl["ok"] else "tlc-bad": 1}, "failures": fails,
            "extra": {"tlc_states": tl.get("distinct", 0), "tlc_transitions": tl.get("generated", 0), "tlc_configs": 1},
            "sample": {"tlc": {"W": e["W"], "T": e["T"], "SPUR": e["spur"], "distinct_states": tl.get("distinct"), "generated": tl.get("generated"), "depth": tl.get("depth")}}}


def finalize(ctx, cov):
    # TLC verdicts of the larger configurations rest on the binding established on the small ones
    cov["model_bound"] = bool(cov.get("model_bound_configs", 0)) and not cov.get("model_binding_broken", 0)
    if not cov["model_bound"]:
        cov["note_model"] = "binding not established on this run: TLC results are not counted, the verdict rests on the direct exploration"
    cov.setdefault("states", 0)
    cov.setdefault("transitions", 0)
    cov.setdefault("traces_validated_against_impl", 0)
