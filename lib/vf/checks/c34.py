"""C34 — reading any ELF input is memory-safe and never aborts in libabigail."""
import os

from .. import cbuild, core, elfmut, seeds, toolrun

LEVEL = "fault_enumeration"
ENGINE = "elfmut"
TECHNIQUE = ("exhaustive single-deviation enumeration over valid ELF binaries: every field of the ELF header, of every section header, of every symbol, every word of both hash tables, every version index / version definition half-word, "
             "every dynamic entry, every byte of .debug_info/.debug_abbrev, and truncation at every section boundary, each set to a catalogue of boundary values; mutants read by abidw, abidiff and abisym (plain build in the quick tier, ASan+UBSan build in the thorough tier)")
RULE = ("binaries: the 'symbols' seed (versioned, aliased, weak, TLS, common symbols) linked with --hash-style=both and with --hash-style=sysv, -g (quick; for the SysV one only the mutations the .hash lookup depends on, read by abisym), plus its relocatable object, the C++ seed and a DWARF 4 build (thorough). Catalogue (lib/vf/elfmut.py): "
        "field := one of {0, 1, cur+1, cur-1, max, max/2, file size, file size-1, number of sections, ...}; st_info/st_shndx/version indices from their own boundary lists; DWARF bytes := {0, 0xff, cur+1, cur^0x80, 0x7f} at every offset "
        "(every 5th offset in quick). Each mutant is read by abidw, abidw --load-all-types, abidiff (mutant, original), abisym for a present and for an absent symbol name. Oracle: the process ends by exit - no signal, no assertion abort, "
        "no sanitizer report, no time-out; crashes whose innermost non-runtime frame is in elfutils are tallied as third-party. Non-trivial: every mutant.")
TEXT = ("Deviation bound 1 (one corrupted field or byte): quick = the catalogue on 2 binaries on the plain build; thorough = the full catalogue on 5 binaries on the plain build (aborts, signals, hangs), "
        "then ASan+UBSan on a reduced catalogue (main binary with every second DWARF byte, the symbol-lookup classes of the SysV-hash binary, the symbol / hash classes and every fourth DWARF byte of the C++ binary).")
NOTE = ("The plain build sees signals, aborts and hangs but not silent out-of-bounds reads; those are only covered by the ASan+UBSan stage of the thorough tier. Pairs of corruptions are not explored.")
ASSUMPTIONS = ["single-field corruptions of compiler-produced binaries are representative of malformed ELF input"]
_bins = {}
_cat = {}


def _v(ctx, e=None):
    if e is not None and e.get("variant"):
        return e["variant"]
    return "plain" if ctx.quick else "asan"


def _make(ctx):
    s = seeds.SEEDS["symbols"]
    out = {}
    out["symbols-so"] = cbuild.compile_units([(f, src, ["-g"]) for f, src in s["units"]], link_flags=list(s["link"]) + ["-Wl,--hash-style=both", "-Wl,-soname,libsym.so"],
                                             out_name="libsym.so", extra_files=s.get("extra"), tag="c34")
    # the same library with only a SysV hash table: abisym then walks .hash (with both tables it prefers .gnu.hash)
    out["symbols-sysv-so"] = cbuild.compile_units([(f, src, ["-g"]) for f, src in s["units"]], link_flags=list(s["link"]) + ["-Wl,--hash-style=sysv", "-Wl,-soname,libsym.so"],
                                                  out_name="libsym.so", extra_files=s.get("extra"), tag="c34")
    if not ctx.quick:
        out["symbols-dw4-so"] = cbuild.compile_units([(f, src, ["-g", "-gdwarf-4"]) for f, src in s["units"]], link_flags=list(s["link"]) + ["-Wl,--hash-style=both", "-Wl,-soname,libsym.so"],
                                                     out_name="libsym.so", extra_files=s.get("extra"), tag="c34")
        out["basic-o"] = seeds.build("basic", kind="reloc")
        out["cxx_anon-so"] = seeds.build("cxx_anon")
    return out


def prepare(ctx):
    toolrun.tool("plain", "abidw")
    toolrun.tool("plain", "abisym")
    if not ctx.quick:
        toolrun.tool("asan", "abidw")
        toolrun.tool("asan", "abisym")
    for n, p in _make(ctx).items():
        _bins[n] = (p, open(p, "rb").read())


def _muts(ctx, b):
    if b not in _cat:
        cat = list(elfmut.catalogue(_bins[b][1], dwarf_stride=5 if ctx.quick else 1, sym_limit=12 if ctx.quick else None))
        if b == "symbols-sysv-so" and ctx.quick:
            # quick: only what the symbol lookup through .hash depends on
            cat = [m for m in cat if m[0].startswith(("sysv-hash", "sym-dynsym", "versym", "verdef", "verneed")) or m[0].endswith(("-hash", "-symtab", "-version"))]
        _cat[b] = cat
    return _cat[b]


def _asan_subset(b, muts):
    """Indices of the catalogue that the (much slower) ASan+UBSan pass of the thorough tier repeats: the main binary with every
    second DWARF byte, the SysV-hash binary's symbol-lookup classes, the C++ binary's symbol / hash classes and every 4th DWARF byte."""
    out = []
    k = 0
    for i, m in enumerate(muts):
        dw = m[0].startswith("dwarf-byte")
        if dw:
            k += 1
        if b == "symbols-so":
            if dw and k % 2:
                continue
        elif b == "symbols-sysv-so":
            if not (m[0].startswith(("sysv-hash", "sym-dynsym", "versym", "verdef", "verneed")) or m[0].endswith(("-hash", "-version"))):
                continue
        elif b == "cxx_anon-so":
            if dw:
                if k % 4:
                    continue
            elif not m[0].startswith(("sym-", "gnu-hash")):
                continue
        else:
            continue
        out.append(i)
    return out


def stages(ctx):
    el = []
    for b in _bins:
        n = len(_muts(ctx, b))
        el += [{"kind": "range", "bin": b, "lo": i, "hi": min(i + 60, n), "variant": "plain"} for i in range(0, n, 60)]
    if ctx.quick:
        return [("single-field-corruptions", el)]
    el2 = []
    for b in _bins:
        idx = _asan_subset(b, _muts(ctx, b))
        el2 += [{"kind": "list", "bin": b, "idx": idx[i:i + 40], "variant": "asan"} for i in range(0, len(idx), 40)]
    return [("single-field-corruptions(plain-build,full-catalogue)", el), ("single-field-corruptions(asan+ubsan,reduced-dwarf-stride)", el2)]


def _run_all(ctx, e, u, op, site, fails, outs):
    full = _bins[e["bin"]][0]
    d = ctx.tmpdir("m")
    up = os.path.join(d, "m.bin")
    with open(up, "wb") as f:
        f.write(u)
    v = _v(ctx, e)
    runs = [("abidw", [up]), ("abidw", ["--load-all-types", up]), ("abidiff", [up, full]), ("abisym", [up, "vfn"]), ("abisym", [up, "no_such_symbol"])]
    if e["bin"] == "symbols-sysv-so" and ctx.quick:
        runs = runs[3:] + [("abisym", [up, "base_fn"])]
    for tool, args in runs:
        rc, out, err = toolrun.run_tool(ctx, v, tool, args, timeout=4 if v == "plain" else 15, fast=True)
        c = toolrun.classify(rc, err)
        if c is None:
            outs["exit"] = outs.get("exit", 0) + 1
            continue
        outcome, where, owner = c
        if outcome == "asan:stack-overflow":
            outcome = "segv"       # the same event as on the plain build (unbounded recursion), named alike in signatures
        if where == "unknown":     # no usable trace (plain build, or an in-process run that caught the signal): repeat in a forked ASan copy
            c2 = toolrun.locate(ctx, tool, args)
            if c2:
                where, owner = c2[1], c2[2]
                if c2[0] == "asan:stack-overflow":
                    outcome = "segv"
        outs[outcome] = outs.get(outcome, 0) + 1
        if owner == "third_party":
            outs["third-party"] = outs.get("third-party", 0) + 1
            continue
        fails.append({"sig": "C34 %s %s %s %s" % (tool, outcome, where, op),
                      "what": "%s %s: %s in %s on mutant '%s' (%s) of %s: %s" % (tool, " ".join(args[:-1] if tool != "abisym" else args[1:]), outcome, where, op, site, e["bin"], err.decode(errors="replace")[-300:].replace("\n", " | ")),
                      "element": {"kind": "one", "bin": e["bin"], "op": op, "site": site, "variant": v}})
    try:
        os.unlink(up)
    except OSError:
        pass
    return len(runs)


def evaluate(ctx, e):
    fails, outs = [], {}
    n = nt = 0
    muts = _muts(ctx, e["bin"])
    if e["kind"] == "range":
        for op, site, u in muts[e["lo"]:e["hi"]]:
            n += _run_all(ctx, e, u, op, site, fails, outs)
            nt += 1
    elif e["kind"] == "list":
        for i in e["idx"]:
            op, site, u = muts[i]
            n += _run_all(ctx, e, u, op, site, fails, outs)
            nt += 1
    else:
        for op, site, u in elfmut.catalogue(_bins[e["bin"]][1]):
            if op == e["op"] and site == e["site"]:
                n += _run_all(ctx, e, u, op, site, fails, outs)
                nt += 1
                break
    return {"evaluations": n, "nontrivial_count": nt, "outcomes": outs, "failures": fails, "sample": {"bin": e["bin"], "first": e.get("lo")}}
