"""C39 — INI configurations survive write/read round trips."""
from .. import probe

LEVEL = "exploration"
ENGINE = "inimut"
TECHNIQUE = "bounded exhaustive enumeration of generated configurations and of all token strings of the INI grammar up to a length, round-trip oracle"
RULE = ("(a) conf: every configuration with 1 property, and every ordered pair of properties (x 1 or 2 sections), whose values range over string / list of 2 / list of 3 / "
        "tuple of strings / tuple of a list / nested tuples / valueless, over 6 value strings using documented value characters (letters, inner space, '=', '[1]', regex chars, '/'): "
        "write -> read must give the same configuration. (b) text: every string of <= L tokens over 13 (top level) / 12 (inside a section, after 'n = ', after real suppression keys) "
        "tokens incl. brackets, braces, comma, newline, backslash, comment chars: read -> write -> read must equal the first read. "
        "Configurations are compared in a normal form that identifies a tuple of strings with a tuple of one list (the text form is the same). "
        "Non-trivial: the first read yields at least one section.")
TEXT = ("Exhaustive within the bound: 24.5k single-property and all pair configurations for direction (a); for direction (b) every token string up to length 5 (quick) / 6 (thorough) "
        "under six prefixes. The oracle is structural equality of section names, property names, kinds and values.")
NOTE = "Values outside the 6-string alphabet and texts longer than the bound are not covered. The writer does not escape, so texts whose first read contains escaped delimiters cannot round-trip: recorded as known findings (narrow signatures per input class)."
ASSUMPTIONS = ["normal form: adjacent string/list items of a tuple are merged, because '{a,b}' is the text of both"]
NSH = 16
_exe = None


def prepare(ctx):
    global _exe
    _exe = probe.build_probe("plain", "apiprobe_ini", extra_flags=["-O1"])


def _text(L, nmin, prefixes):
    return [{"mode": "text", "L": L, "shard": i, "nshards": NSH, "nmin": nmin, "prefix": p} for p in prefixes for i in range(NSH)]


def stages(ctx):
    st = [("conf-depth1,text<=3", [{"mode": "conf", "depth": 1, "shard": i, "nshards": NSH} for i in range(NSH)] + _text(3, -1, range(6))),
          ("text<=5", _text(5, 3, range(6)))]
    if not ctx.quick:
        st += [("conf-depth2", [{"mode": "conf", "depth": 2, "shard": i, "nshards": 64} for i in range(64)]),
               ("text<=6", _text(6, 5, range(6)))]
    return st


def _keep(r):
    r["failures"] = [f for f in r["failures"] if f["sig"].startswith("C39 ")]
    return r


def evaluate(ctx, e):
    if "one" in e:
        return _keep(probe.run_probe(ctx, _exe, ["--one"] + list(e["one"])))
    if e["mode"] == "conf":
        return _keep(probe.run_probe(ctx, _exe, ["conf", e["depth"], e["shard"], e["nshards"]], timeout=2400))
    return _keep(probe.run_probe(ctx, _exe, ["text", e["L"], e["shard"], e["nshards"], e["nmin"], e["prefix"]], timeout=2400))
