"""C25 — loading and applying any suppression file never crashes."""
import os

from .. import probe, inigen, toolrun, cbuild, core

LEVEL = "fault_enumeration"
ENGINE = "inimut"
TECHNIQUE = "bounded exhaustive enumeration of INI token strings (in-process, ASan+UBSan) and of a (section x key x value-shape) catalogue applied by the real tools to binaries that exercise every suppression evaluator"
RULE = ("text: every string of <= L tokens over the INI token alphabet appended to six prefixes, parsed by ini::read_config and suppr::read_suppressions in an ASan+UBSan process "
        "(signals, assertion aborts and hangs are caught per text; a sanitizer death re-runs the shard with one forked child per text); "
        "docs/tool: every (section kind x property key x value shape) document (5 x 32 x 46) and every pair of (key, shape) of a core catalogue, read in-process and applied by abidiff, abidw, abicompat "
        "(--suppressions) and as a KMI whitelist to a binary pair with an inserted data member, changed enumerators, changed parameter, aliases, added/removed functions and variables. "
        "Non-trivial: the text yields at least one section / the tool actually ran to completion on the document.")
TEXT = ("Deviation-from-valid-input enumeration: all token strings up to length 5 (quick) / 6 (thorough), the complete single-property catalogue in-process, and tool-level application of the "
        "core (quick) / complete single + pair (thorough) catalogue under AddressSanitizer+UBSan. Oracle: the process ends by exit, without signal, assertion abort, sanitizer report or time-out.")
NOTE = "Byte sequences outside the token grammar (arbitrary binary noise) are only represented by the utf8/escape shapes; crashes inside libxml2/elfutils would be tallied as third-party."
NSH = 16
_exe = None
_bins = None

V1 = r'''
struct S { int a; int b; }; enum E { E0, E1 }; typedef struct S T; struct Empty {};
union U { int i; char c; };
int f(struct S* s, enum E e) { return s->a + e; }
int f_alias(struct S*, enum E) __attribute__((alias("f")));
int g(int x, union U* u) { return x + u->i; }
int removed_fn(void) { return 0; }
int v = 1; int removed_var = 2; struct Empty ev;
T* h(T* t) { return t; }
'''
V2 = r'''
struct S { int a; char c; int b; long d; }; enum E { E0, E2 = 5, E1 }; typedef struct S T; struct Empty {};
union U { int i; char c; long l; };
int f(struct S* s, enum E e) { return s->a + e; }
int f_alias(struct S*, enum E) __attribute__((alias("f")));
int g(long x, union U* u) { return x + u->i; }
int added_fn(void) { return 0; }
long v = 1; int added_var = 2; struct Empty ev;
T* h(T* t) { return t; }
'''
APP = r'''
struct S; enum E { E0, E1 }; union U;
extern int f(struct S*, enum E); extern int g(int, union U*); extern int v;
int main(void) { return f(0, E0) + g(1, 0) + v; }
'''


def _variant(ctx):
    # ASan start-up (shadow mapping) costs ~0.12 s per tool process; the quick tier therefore runs the
    # tools of the plain build (signals, assertion aborts, hangs) and keeps ASan+UBSan for the in-process
    # parsing sweeps; the thorough tier runs the ASan+UBSan tools.
    return "plain" if ctx.quick else "asan"


def prepare(ctx):
    global _exe, _bins
    _exe = probe.build_probe("asan", "apiprobe_ini", extra_flags=["-O1"])
    toolrun.tool(_variant(ctx), "abidiff")
    l1 = cbuild.shared_c(V1, name="libt.so", link=["-Wl,-soname,libt.so"])
    l2 = cbuild.shared_c(V2, name="libt.so", link=["-Wl,-soname,libt.so"])
    app = cbuild.compile_units([("app.c", APP, ["-g"])], link_flags=["-L" + os.path.dirname(l1), "-lt"], out_name="app", kind="exe")
    # the same pair without debug info: added / removed / changed *symbols* exercise the symbol-only evaluators
    # (suppresses_function_symbol, suppresses_variable_symbol) that the pair with debug info never reaches
    n1 = cbuild.shared_c(V1, flags=(), name="libt.so", link=["-Wl,-soname,libt.so"])
    n2 = cbuild.shared_c(V2, flags=(), name="libt.so", link=["-Wl,-soname,libt.so"])
    _bins = (l1, l2, app, n1, n2)


PROBE_ENV = {"ASAN_OPTIONS": "detect_leaks=0:exitcode=99:handle_segv=0:handle_abort=0:allow_user_segv_handler=1",
             "UBSAN_OPTIONS": "print_stacktrace=1:halt_on_error=1:exitcode=98"}


def _text(L, nmin, prefixes):
    return [{"mode": "text", "L": L, "shard": i, "nshards": NSH, "nmin": nmin, "prefix": p} for p in prefixes for i in range(NSH)]


def _chunks(lst, n):
    return [lst[i:i + n] for i in range(0, len(lst), n)]


def stages(ctx):
    singles = list(inigen.single_docs())
    core_singles = [d for d in singles if d["props"][0][0] in inigen.CORE_KEYS and d["section"] != "suppress_bogus"]
    st = [("text<=3,docs-single", _text(3, -1, range(6)) + [{"mode": "docs", "docs": c} for c in _chunks(singles, 500)]),
          ("text<=5", _text(5, 3, range(6))),
          ("tool-core-singles", [{"mode": "tool", "doc": d} for d in core_singles]),
          ("tool-all-singles-symbol-only-pair", [{"mode": "tool", "doc": d, "nodebug": True} for d in singles if d["section"] != "suppress_bogus"])]
    if not ctx.quick:
        pairs = list(inigen.pair_docs())
        rest = [d for d in singles if d not in core_singles]
        st += [("docs-pairs", [{"mode": "docs", "docs": c} for c in _chunks(pairs, 1000)]),
               ("tool-all-singles", [{"mode": "tool", "doc": d} for d in rest]),
               ("text<=6", _text(6, 5, range(6))),
               ("tool-pairs", [{"mode": "tool", "doc": d} for d in pairs])]
    return st


def _keep(r):
    r["failures"] = [f for f in r["failures"] if f["sig"].startswith("C25 ")]
    r["outcomes"] = {k: v for k, v in r.get("outcomes", {}).items() if not k.startswith("roundtrip")}
    return r


def _probe(ctx, args):
    env = ctx.env(**PROBE_ENV)
    try:
        return _keep(probe.run_probe(ctx, _exe, args, timeout=2400, env=env))
    except core.HarnessError:
        # a sanitizer-detected error killed the process: pin it down with one child per text; this is slow (process creation is
        # serialised here), so it is bounded by what is left of the tier's budget
        import time
        left = max(120.0, getattr(ctx, "deadline", time.time() + 600) - time.time() + 300)
        return _keep(probe.run_probe(ctx, _exe, ["--fork-each"] + list(args), timeout=min(3000, left), env=env))


def evaluate(ctx, e):
    if "one" in e:
        return _probe(ctx, ["--one"] + list(e["one"]))
    if e["mode"] == "text":
        return _probe(ctx, ["text", e["L"], e["shard"], e["nshards"], e["nmin"], e["prefix"]])
    if e["mode"] == "docs":
        d = ctx.tmpdir("docs")
        p = os.path.join(d, "docs.bin")
        with open(p, "wb") as f:
            f.write(b"\0".join(inigen.doc(x["section"], x["props"]).encode("latin-1") for x in e["docs"]))
        r = _probe(ctx, ["file", p])
        r["sample"] = e["docs"][0]
        return r
    # tool level
    doc = e["doc"]
    text = inigen.doc(doc["section"], doc["props"])
    d = ctx.tmpdir("tool")
    sp = os.path.join(d, "x.suppr")
    with open(sp, "wb") as f:
        f.write(text.encode("latin-1"))
    wl = os.path.join(d, "x.whitelist")
    with open(wl, "wb") as f:
        f.write(text.replace("[" + doc["section"] + "]", "[abi_whitelist]").encode("latin-1"))
    l1, l2, app, n1, n2 = _bins
    if e.get("nodebug"):
        runs = [("abidiff", ["--suppressions", sp, n1, n2]), ("abidiff", ["--suppressions", sp, n2, n1])]
    else:
      runs = [("abidiff", ["--suppressions", sp, l1, l2]),
              ("abidw", ["--suppressions", sp, l1]),
              ("abicompat", ["--suppressions", sp, app, l1, l2]),
              ("abidiff", ["--kmi-whitelist", wl, l1, l2])]
    fails, outs = [], {}
    cls_in = "%s/%s/%s" % (doc["section"], "+".join(k for k, _ in doc["props"]), doc["shape"])
    for name, args in runs:
        rc, out, err = toolrun.run_tool(ctx, _variant(ctx), name, args, timeout=30, fast=True)
        c = toolrun.classify(rc, err)
        if c is None:
            outs["%s-exit%s" % (name, rc)] = outs.get("%s-exit%s" % (name, rc), 0) + 1
            continue
        outcome, site, owner = c
        outs[outcome] = outs.get(outcome, 0) + 1
        if owner == "third_party":
            continue
        fails.append({"sig": "C25 %s %s %s %s" % (name, outcome, site, cls_in),
                      "what": "%s %s: %s in %s with suppression text %r; stderr: %s" % (name, " ".join(args[:1]), outcome, site, text, err.decode(errors="replace")[-400:])})
    return {"failures": fails, "outcomes": outs, "evaluations": len(runs), "nontrivial_count": 1}
