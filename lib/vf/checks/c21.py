"""C21 — equality, hashing and diffing agree on the IR."""
from .. import core, probe, pscommon as pc

LEVEL = "exploration"
ENGINE = "progspace"
TECHNIQUE = "bounded exhaustive exploration: every edge pack (breaking, harmless and neutral) loaded into ONE environment through the public API; the three laws evaluated on every same-named function / variable / type pair across the two corpora, on every pair of array / pointer / qualified / enum / typedef types across the corpora whatever their names, and on every pair of types inside a corpus"
RULE = ("binary pairs = packs of all breaking edges, all harmless edges and all neutral edges of the node set (C05-C07), plus each seed program against its changed variant and against itself; for each pair the in-process probe "
        "checks: a==b <=> b==a; a==b => hash(a)==hash(b); compute_diff(a,b)->has_changes() <=> !(a==b). Non-trivial: pairs that are not equal.")
TEXT = "Every artifact pair of every generated binary pair; the probe uses only operator==, hash_type_or_decl and compute_diff."
NOTE = "Artifacts are paired by name; types inside one corpus are compared all-against-all (equality and hash), diffs are computed for same-named pairs."
_exe = None


def prepare(ctx):
    global _exe
    _exe = probe.build_probe("plain", "apiprobe_eqhash")


def stages(ctx):
    from .. import seeds
    specs = pc.all_specs(ctx.quick)
    el = []
    for cls in ("breaking", "harmless", "neutral"):
        edges = pc.edge_list(specs, cls)
        if ctx.quick:
            edges = edges[::3]
        el += [{"pack": p, "cls": cls} for p in pc.chunks(edges, 30)]
    el += [{"seed": n, "v2": v} for n in seeds.all_names() if n != "big" for v in (True, False)]
    return [("all-edge-packs", el)]


def evaluate(ctx, e):
    from .. import seeds
    if "seed" in e:
        v1, v2 = seeds.build(e["seed"]), seeds.build(e["seed"], e["v2"])
        cls = "seed-" + e["seed"]
    else:
        v1, v2, info = pc.build_pair(e["pack"], e["cls"])
        cls = e["cls"]
    r = probe.run_probe(ctx, _exe, [v1, v2], timeout=600)
    for f in r["failures"]:
        f["sig"] = f["sig"] + " " + cls
        f["element"] = e
    r["sample"] = {"pair": cls, "first": e.get("seed") or e["pack"][0]}
    return r
