"""C05 — ABI-breaking source changes are always reported."""
from .. import core, pscommon as pc, report_parser, progspace as ps

LEVEL = "exploration"
ENGINE = "progspace"
TECHNIQUE = "bounded exhaustive exploration of the program-space transition system: every breaking edit at every site of every node up to the size bound, expected verdict from the generator's model"
RULE = ("nodes = every struct of <= 2 (quick) / <= 3 (thorough) members over the member alphabet {char,int,long,double,int*,int[2],int:3,short} x access path "
        "{by value, pointer, const pointer, pointer to pointer, typedef, return value, function-pointer parameter, member of another struct, array member, global variable}, 2-member unions, "
        "and construction seeds (enums, self/mutual recursion, anonymous union member, typedef chain, variadic, opaque type); edges = every breaking edit at every site: insert a member (int, char) at each position, "
        "remove each member, swap each adjacent pair, retype each member (size-changing and size-preserving), bit-field width, each enumerator value, add/remove parameter, change return type, remove the function/variable. "
        "Units are packed ~40 per binary pair (disjoint names); a unit that fails is rebuilt and judged in isolation. Non-trivial: every edge (both binaries compiled, tool ran, the model expects a report).")
TEXT = "Every edge of the breaking class is compiled (gcc -g) and compared with abidiff default options; oracle: change bit set, the unit's interface listed in a [C] (or [D]) entry, removal also sets the incompatible bit."
NOTE = "x86-64, gcc 12, C only in this check; programs larger than the bound and edits outside the catalogue are not covered. Expected verdicts come from edit labels (a member inserted into padding is still reportable)."
ASSUMPTIONS = ["units with disjoint names do not influence each other's verdict (re-checked in isolation on failure)"]
PACK = 40


def prepare(ctx):
    from .. import toolrun
    toolrun.tool("plain", "abidiff")


def stages(ctx):
    specs = pc.all_specs(ctx.quick)
    edges = pc.edge_list(specs, "breaking")
    # group by expectation so that packs of removals are judged for bit 8
    rem = [e for e in edges if e[1].startswith("remove-function") or e[1].startswith("remove-variable")]
    chg = [e for e in edges if e not in rem]
    st = [("all-breaking-edges", [{"pack": p, "kind": "changed"} for p in pc.chunks(chg, PACK)] + [{"pack": p, "kind": "removed"} for p in pc.chunks(rem, PACK)])]
    return st


def evaluate(ctx, e):
    v1, v2, info = pc.build_pair(e["pack"], "breaking")
    rc, out, err = pc.abidiff(ctx, v1, v2)
    fails, outs = [], {}
    if not isinstance(rc, int) or rc < 0 or (rc & 3):
        raise core.HarnessError("abidiff failed on a compiler-produced pair: rc=%s %s" % (rc, err[-300:]))
    rep = report_parser.parse(out)
    changed = pc.names_in(rep, ["changed_functions", "changed_variables"])
    removed = pc.names_in(rep, ["removed_functions", "removed_variables"])
    single = len(info) == 1
    for idx, u1, u2, exp, spec, label in info:
        ifs = u1.interfaces()
        lab_cls = label.split("@")[0].split("-")[0] + "-" + label.split("@")[0].split("-")[1] if "-" in label else label
        path = spec.get("p", "special%s" % spec.get("sp"))
        kind = spec.get("k") or ("union" if any(d[0] == "union" for d in u1.types) else "struct")
        if kind == "union":
            # libabigail files union changes that keep the union's size under a "harmless" category; make that visible in the signature
            s1 = [ps.union_size(d[2]) for d in u1.types if d[0] == "union"]
            s2 = [ps.union_size(d[2]) for d in u2.types if d[0] == "union"]
            kind = "union-same-size" if s1 and s1 == s2 and s1[0] is not None else "union-size-changed"
        path = kind + "/" + path
        ok = True
        what = ""
        if exp == "removed":
            if not any(i in removed for i in ifs):
                ok, what = False, "removed interface %s is not listed in a [D] entry" % ifs
            elif single and (rc & 12) != 12:
                ok, what = False, "removal did not set the change and incompatible-change bits (exit status %d)" % rc
        else:
            if not any(i in changed or i in removed for i in ifs):
                ok, what = False, "edit '%s' on %s: none of %s appears in a [C]/[D] entry" % (label, u1.tag, ifs)
            elif single and not (rc & 4):
                ok, what = False, "the ABI-change bit is not set (exit status %d)" % rc
        outs["reported" if ok else "missed"] = outs.get("reported" if ok else "missed", 0) + 1
        if not ok:
            fails.append({"sig": "C05 abidiff missed %s %s" % (lab_cls, path), "what": what + " [spec %s]" % spec,
                          "element": {"pack": [[spec, label]], "kind": e["kind"]}})
    if not single and info and not (rc & 4):
        fails.append({"sig": "C05 abidiff exit%d pack-without-change-bit" % rc, "what": "a pack of %d breaking edits gave exit status %d" % (len(info), rc)})
    if e["kind"] == "removed" and not single and (rc & 12) != 12:
        fails.append({"sig": "C05 abidiff exit%d removal-without-incompatible-bit" % rc, "what": "a pack of removals gave exit status %d" % rc})
    return {"evaluations": len(info), "nontrivial_count": len(info), "outcomes": outs, "failures": fails,
            "sample": {"spec": info[0][4], "edit": info[0][5], "unit_source": info[0][1].emit()[:300]}}
