"""C26 — public-header filtering hides only private types."""
import itertools
import os
import re

from .. import cbuild, core, pscommon as pc, report_parser, toolrun

LEVEL = "exploration"
ENGINE = "progspace"
TECHNIQUE = "bounded exhaustive exploration: every placement of K types over {public header, private header, .c file, declared-only in the public header with the definition in a private header or in the .c file} x every non-empty set of mutated types x {--headers-dir, --header-file} x {with, without --drop-private-types} (+ the abidw --headers-dir --drop-private-types route); oracle from the generator's placement model"
RULE = ("library = K slots (K=2 quick, 3 thorough); slot i is a struct (or an enum in the enum stage) S_i exposed in one of three shapes - separate: one exported f_i(S_i*) per slot; fall: a single function fall(S_0*, S_1*, ...); fhub: a single function fhub(struct Hub*) where the public struct Hub points to every S_i (in the last two, private and public changes meet in one diff node, in both orders) - and placed in inc/pub.h | src/priv.h | lib.c | forward-declared in inc/pub.h and defined in src/priv.h | "
        "forward-declared in inc/pub.h and defined in lib.c. Version 2 grows every S_i of a non-empty subset M (member appended / enumerator value changed). Runs: abidiff with --headers-dir1/2 = inc "
        "or --header-file1/2 = inc/pub.h, each with and without --drop-private-types; and abidw --headers-dir inc --drop-private-types on both versions followed by abidiff of the two documents. Oracle: the set of functions reported "
        "as changed == { f_i : i in M and slot i is defined in the public header } (for the shapes fall / fhub: that one function, exactly when the set is not empty); exit status 0 exactly when that set is empty. Non-trivial: every run.")
TEXT = "Complete cross of placements x mutated subsets x option routes."
NOTE = ("Header matching is by file base name (documented); no two files of a program share a base name here. A private type embedded by value in a public type is not in the alphabet: such a public header "
        "cannot be compiled by a consumer without the private header, i.e. the type is not private in any real sense.")
LOCS = ["pub", "priv", "src", "opaque", "opaque-src"]


def prepare(ctx):
    toolrun.tool("plain", "abidiff")
    toolrun.tool("plain", "abidw")


def stages(ctx):
    k = 2 if ctx.quick else 3
    el = []
    for locs in itertools.product(LOCS, repeat=k):
        for r in range(1, k + 1):
            for m in itertools.combinations(range(k), r):
                for shape in ("separate", "fall", "fhub"):
                    el.append({"kind": "struct", "locs": list(locs), "mut": list(m), "shape": shape})
    en = []
    for locs in itertools.product(["pub", "priv", "src"], repeat=2):
        for m in ((0,), (1,), (0, 1)):
            en.append({"kind": "enum", "locs": list(locs), "mut": list(m)})
    return [("struct-placements-x-mutations", el), ("enum-placements-x-mutations", en)]


def _defn(kind, i, mutated):
    if kind == "enum":
        return "enum S_%d { E%d_A = 0, E%d_B = %d };" % (i, i, i, 7 if mutated else 1)
    return "struct S_%d { int a; long b;%s };" % (i, " int added;" if mutated else "")


def _build(kind, locs, mut, shape="separate"):
    pub, priv, src = ["#ifndef PUB_H\n#define PUB_H"], ["#ifndef PRIV_H\n#define PRIV_H"], []
    kw = "enum" if kind == "enum" else "struct"
    for i, loc in enumerate(locs):
        d = _defn(kind, i, i in mut)
        arg = "%s S_%d*" % (kw, i)
        if loc == "pub":
            pub.append(d)
        elif loc == "priv":
            priv.append(d)
        elif loc == "src":
            src.append(d)
        elif loc == "opaque":
            pub.append("struct S_%d;" % i)
            priv.append(d)
        elif loc == "opaque-src":
            pub.append("struct S_%d;" % i)
            src.append(d)
        if shape == "separate":
            if loc != "src":
                pub.append("int f_%d(%s p);" % (i, arg))
            src.append("int f_%d(%s p) { return p != 0; }" % (i, arg))
    # two interfaces that mix all the (header-visible) types, in slot order: a function taking every type, and a function
    # taking a public structure that points to every type
    inc = list(range(len(locs)))
    if shape == "fall":
        args = ", ".join("%s S_%d* p%d" % (kw, i, i) for i in inc)
        pub.append("int fall(%s);" % args)
        src.append("int fall(%s) { return p%d != 0; }" % (args, inc[0]))
    elif shape == "fhub":
        pub.append("struct Hub { %s };" % " ".join("%s S_%d* m%d;" % (kw, i, i) for i in inc))
        pub.append("int fhub(struct Hub* h);")
        src.append("int fhub(struct Hub* h) { return h != 0; }")
    pub.append("#endif\n")
    priv.append("#endif\n")
    text = '#include "priv.h"\n#include "pub.h"\n' + "\n".join(src) + "\n"
    if shape != "separate":
        # the interface is declared in pub.h: types defined in lib.c need a forward declaration there
        pub = [pub[0]] + ["%s S_%d;" % (kw, i) for i, loc in enumerate(locs) if loc == "src" and kind != "enum"] + pub[1:]
    lib = cbuild.compile_units([("src/lib.c", text, ["-g", "-Iinc", "-Isrc"])], link_flags=["-Wl,-soname,libhdr.so"], out_name="libhdr.so",
                               extra_files={"inc/pub.h": "\n".join(pub), "src/priv.h": "\n".join(priv)}, tag="c26")
    return lib, cbuild.srcdir_of(lib)


def evaluate(ctx, e):
    kind, locs, mut = e["kind"], e["locs"], set(e["mut"])
    shape = e.get("shape", "separate")
    l1, s1 = _build(kind, locs, set(), shape)
    l2, s2 = _build(kind, locs, mut, shape)
    expect = set("f_%d" % i for i in mut if locs[i] == "pub")
    if shape != "separate":
        expect = {shape} if expect else set()
    routes = []
    for hname, hopts in (("headers-dir", ["--headers-dir1", s1 + "/inc", "--headers-dir2", s2 + "/inc"]),
                         ("header-file", ["--header-file1", s1 + "/inc/pub.h", "--header-file2", s2 + "/inc/pub.h"])):
        for dname, dopts in (("keep", []), ("drop-private-types", ["--drop-private-types"])):
            routes.append(("%s/%s" % (hname, dname), hopts + dopts, l1, l2))
    d = ctx.tmpdir("c26")
    docs = []
    for lib, sd in ((l1, s1), (l2, s2)):
        rc, out, err = pc.run(ctx, "abidw", ["--headers-dir", sd + "/inc", "--drop-private-types", lib])
        if rc != 0:
            raise core.HarnessError("abidw --headers-dir failed rc=%s %s" % (rc, err[-300:]))
        p = os.path.join(d, "v%d.abi" % (len(docs) + 1))
        with open(p, "wb") as f:
            f.write(out if isinstance(out, bytes) else out.encode())
        docs.append(p)
    routes.append(("abidw-drop-private-types", [], docs[0], docs[1]))
    fails, outs = [], {}
    n = 0
    cls = "+".join(sorted(set(locs[i] for i in mut)))
    for rname, opts, a, b in routes:
        rc, out, err = pc.abidiff(ctx, a, b, opts)
        n += 1
        if not isinstance(rc, int) or rc < 0 or rc & 3:
            o, site, _ = toolrun.classify(rc, err)
            fails.append({"sig": "C26 abidiff %s %s %s" % (o, site, rname), "what": "%s mut=%s: rc=%s %s" % (locs, sorted(mut), rc, err[-300:])})
            continue
        rep = report_parser.parse(out)
        got = pc.names_in(rep, ["changed_functions"], r"\b(f_\d+|fall|fhub)\b")
        other = pc.names_in(rep, ["removed_functions", "added_functions"], r"\b(f_\d+|fall|fhub)\b")
        desc = "%s placement=%s mutated=%s shape=%s route=%s" % (kind, locs, sorted(mut), shape, rname)
        ok = True
        if expect - got:
            fails.append({"sig": "C26 abidiff public-change-hidden %s %s %s %s" % (kind, rname, cls, shape), "what": "%s: %s not reported (exit %s)\n%s" % (desc, sorted(expect - got), rc, out[:400])})
            ok = False
        if got - expect or other:
            fails.append({"sig": "C26 abidiff private-change-reported %s %s %s %s" % (kind, rname, cls, shape), "what": "%s: %s reported (exit %s)\n%s" % (desc, sorted((got - expect) | other), rc, out[:500])})
            ok = False
        if ok and bool(rc & 4) != bool(expect):
            fails.append({"sig": "C26 abidiff exit-disagrees %s %s %s %s" % (kind, rname, cls, shape), "what": "%s: exit %s but expected changed set %s\n%s" % (desc, rc, sorted(expect), out[:400])})
            ok = False
        k = "%s:%s" % ("reported" if expect else "filtered", "ok" if ok else "wrong")
        outs[k] = outs.get(k, 0) + 1
    return {"evaluations": n, "nontrivial_count": n, "outcomes": outs, "failures": fails, "sample": {"kind": kind, "placement": locs, "mutated": sorted(mut), "expected": sorted(expect)}}
