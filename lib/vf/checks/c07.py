"""C07 — documented harmless changes are filtered by default and shown with --harmless."""
import re

from .. import core, pscommon as pc, report_parser

LEVEL = "exploration"
ENGINE = "progspace"
TECHNIQUE = "bounded exhaustive exploration: every documented-harmless edit applicable to every node, as the only difference between the two binaries; two oracles (default run silent, --harmless run lists it)"
RULE = ("nodes as in C05 (plus C++ class nodes for access / member-function edits); edges = append an enumerator without changing the enum's size, toggle top-level const of a by-value parameter, "
        "rename a typedef of a compatible type, (C++) change a data member's access, add a non-virtual member function that is not emitted. Each edge is judged on its own binary pair (no packing: "
        "the default-run oracle is about the whole exit status). Non-trivial: every edge.")
TEXT = "Each harmless edge: abidiff default => exit 0; abidiff --harmless => change bit set and the unit's interface listed."
NOTE = "Only the harmless kinds that can be realised as the sole difference between two compiled binaries are covered."
CXX_BASE = '''struct K%(i)s { %(acc1)s int a; int b; %(extra)s };
extern "C" int kf%(i)s(K%(i)s* k) { return k->b; }
'''


def prepare(ctx):
    from .. import toolrun
    toolrun.tool("plain", "abidiff")


def stages(ctx):
    specs = pc.all_specs(ctx.quick)
    edges = pc.edge_list(specs, "harmless")
    cxx = [{"cxx": "access"}]   # a member function that is only declared leaves no trace libabigail loads; a defined one adds a symbol, so that kind cannot be the sole difference
    return [("all-harmless-edges", [{"edge": e} for e in edges] + cxx)]


def evaluate(ctx, e):
    from .. import cbuild
    fails, outs = [], {}
    if "cxx" in e:
        if e["cxx"] == "access":
            s1 = CXX_BASE % {"i": "0", "acc1": "public:", "extra": ""}
            s2 = CXX_BASE % {"i": "0", "acc1": "private: public: int z(); private:", "extra": ""}
            s1 = "struct K0 { int a; int b; };\nextern \"C\" int kf0(K0* k) { return k->a; }\n"
            s2 = "struct K0 { int a; private: int b; };\nextern \"C\" int kf0(K0* k) { return k->a; }\n"
        else:
            s1 = CXX_BASE % {"i": "0", "acc1": "", "extra": ""}
            s2 = CXX_BASE % {"i": "0", "acc1": "", "extra": "int method(int) const;"}
        v1 = cbuild.compile_units([("k.cc", s1, ["-g", "-std=c++11"])], out_name="libk.so", link_flags=["-Wl,-soname,libk.so"])
        v2 = cbuild.compile_units([("k.cc", s2, ["-g", "-std=c++11"])], out_name="libk.so", link_flags=["-Wl,-soname,libk.so"])
        label, tag, iface = "cxx-" + e["cxx"], "c++ class", "kf0"
    else:
        spec, label = e["edge"]
        v1, v2, info = pc.build_pair([[spec, label]], "harmless")
        tag, iface = info[0][1].tag, info[0][1].interfaces()[0]
    rc, out, err = pc.abidiff(ctx, v1, v2)
    rch, outh, errh = pc.abidiff(ctx, v1, v2, ["--harmless"])
    lab = re.sub(r"@\d+", "", label)
    if rc != 0:
        fails.append({"sig": "C07 abidiff exit%s default-run %s" % (rc, lab), "what": "harmless edit '%s' on %s makes the default run exit %s: %s" % (label, tag, rc, out[:400])})
    if not isinstance(rch, int) or not (rch & 4) or iface not in outh:
        fails.append({"sig": "C07 abidiff exit%s harmless-run %s" % (rch, lab), "what": "harmless edit '%s' on %s is not listed with --harmless (exit %s): %s" % (label, tag, rch, outh[:300])})
    outs["ok" if not fails else "bad"] = 1
    return {"evaluations": 2, "nontrivial_count": 1, "outcomes": outs, "failures": fails, "sample": {"edge": e.get("edge", e.get("cxx"))}}
