"""C42 — interned strings compare like their contents (explicit-state search over pool histories)."""
from .. import probe

LEVEL = "model_checking"
ENGINE = "apiprobe"
PARALLEL = False
TECHNIQUE = "explicit-state breadth-first search over operation histories of the real interned-string pool, reference model = vector of std::string, canonical-state de-duplication"
RULE = ("state = (sequence of live handle contents, set of pool contents) reached by replaying an operation history (intern one of 6 strings incl. \"\" and \"a\\0b\", "
        "copy, assign, clear, default-construct) on a fresh pool; every transition executes the real code and evaluates the oracle on all handle pairs and all alphabet strings; "
        "a transition is counted non-trivial when it reaches a new canonical state; both the bare pool and environment::intern are explored")
TEXT = ("Breadth-first exploration of every operation history up to depth 5 (quick) / 7 (thorough) on the real pool. In every reached state, for all pairs of handles and all "
        "alphabet strings: object identity <=> equal contents, ==, !=, <, hash, conversions, operator+, operator<<, re-interning, has_string/get_string and hash-set behaviour agree "
        "with the std::string reference model. The model is the implementation itself driven step by step, so every transition is a validated trace.")
NOTE = "Alphabet of 6 strings; histories deeper than the bound and concurrent use of a pool are not covered. States with equal canonical form are merged (same handle contents and same pool contents have the same futures)."
ASSUMPTIONS = ["merging states by (handle contents, pool contents) is sound because pool behaviour depends only on the set of keys already interned"]
_exe = None


def prepare(ctx):
    global _exe
    _exe = probe.build_probe("plain", "apiprobe_c42", extra_flags=["-O2"])


def stages(ctx):
    d = 5 if ctx.quick else 7
    return [("depth<=%d" % d, [{"depth": d}])]


def evaluate(ctx, e):
    if "one" in e:
        return probe.run_probe(ctx, _exe, ["--one", e["one"], e.get("env", 0)])
    r = probe.run_probe(ctx, _exe, [e["depth"]], timeout=3000)
    return r


