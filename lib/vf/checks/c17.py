"""C17 — every exported symbol is accounted for exactly once."""
import itertools
import json

from .. import cbuild, core, probe, readelf

LEVEL = "exploration"
ENGINE = "progspace"
TECHNIQUE = "bounded exhaustive exploration: every assignment of symbol kinds to the slots of small programs (with / without debug info, alias, weak, hidden, protected, static) observed through the public corpus API; oracle = readelf + the specification"
RULE = ("programs of 3 (quick) / 4 (thorough) symbol slots, each slot a function or variable that is independently {exported with debug info, exported from a unit compiled without -g, alias of the previous slot, weak, hidden, "
        "protected, static}: all 7^3 / 7^4 assignments x {all functions, all variables, mixed}; gcc and clang. Observed through libabigail's API (an in-process probe): interface functions/variables and their symbols, "
        "unreferenced function/variable symbols. Oracle: the public defined symbols listed by readelf = symbols attached to interface declarations (with their aliases) + unreferenced symbols, disjoint; every interface "
        "declaration has a symbol of that set; every exported definition compiled with debug info is in the interface. Non-trivial: every program.")
TEXT = "Complete assignment space within the slot bound; the probe only uses the public API (corpus::get_functions, get_variables, get_unreferenced_*_symbols, elf_symbol aliases)."
NOTE = "Aliases follow their main symbol: an alias of an attached symbol counts as accounted for."
KINDS = ["dbg", "nodbg", "alias", "weak", "hidden", "protected", "static"]
_exe = None


def prepare(ctx):
    global _exe
    _exe = probe.build_probe("plain", "apiprobe_corpus")


def _source(assign, shape, pfx=""):
    """assign: tuple of kinds; shape: 'f' | 'v' | 'm' (alternating)."""
    g, n = [], []
    for i, k in enumerate(assign):
        isfn = shape == "f" or (shape == "m" and i % 2 == 0)
        name = "%ss%d" % (pfx, i)
        tgt = g
        attr = ""
        kk = k
        if k == "alias":
            if i == 0:
                kk = "dbg"
            else:
                prev = "%ss%d" % (pfx, i - 1)
                pk = assign[i - 1]
                prev_isfn = shape == "f" or (shape == "m" and (i - 1) % 2 == 0)
                if pk in ("alias",) or prev_isfn != isfn:
                    kk = "dbg"
                else:
                    where = n if pk == "nodbg" else g
                    where.append(("int %s(int) __attribute__((alias(\"%s\")));" % (name, prev)) if isfn else ("extern int %s __attribute__((alias(\"%s\")));" % (name, prev)))
                    continue
        if kk == "nodbg":
            tgt = n
        if kk == "weak":
            attr = "__attribute__((weak)) "
        elif kk == "hidden":
            attr = "__attribute__((visibility(\"hidden\"))) "
        elif kk == "protected":
            attr = "__attribute__((visibility(\"protected\"))) "
        elif kk == "static":
            attr = "static "
        if isfn:
            tgt.append("%sint %s(int x) { return x + %d; }" % (attr, name, i))
            if kk == "static":
                tgt.append("int use_%s(void) { return %s(1); }" % (name, name))
        else:
            tgt.append("%sint %s = %d;" % (attr, name, i + 1))
            if kk == "static":
                tgt.append("int* use_%s(void) { return &%s; }" % (name, name))
    return "\n".join(g) + "\n", "\n".join(n) + "\n"


def stages(ctx):
    nslots = 3 if ctx.quick else 4
    items = []
    for shape in ("f", "v", "m"):
        for a in itertools.product(KINDS, repeat=nslots):
            items.append([list(a), shape])
    el = [{"items": c, "cc": "gcc"} for c in [items[i:i + 25] for i in range(0, len(items), 25)]]
    if not ctx.quick:
        el += [{"items": c["items"], "cc": "clang"} for c in el[::3]]
    return [("all-assignments", el)]


def evaluate(ctx, e):
    gs, ns = ["int zz_dbg_anchor(void) { return 0; }\n"], ["int zz_nodbg_anchor(void) { return 0; }\n"]
    for k, (assign, shape) in enumerate(e["items"]):
        g, n = _source(tuple(assign), shape, "a%d" % k)
        gs.append(g)
        ns.append(n)
    lib = cbuild.compile_units([("g.c", "".join(gs), ["-g"]), ("n.c", "".join(ns), [])], out_name="libc17.so", link_flags=["-Wl,-soname,libc17.so"], cc=e["cc"], tag="c17p")
    rc, out, err = core.run([_exe, lib], timeout=60, ctx=ctx)
    try:
        api = json.loads(out.decode().strip().splitlines()[-1])
    except Exception:
        raise core.HarnessError("apiprobe_corpus failed: rc=%s %s" % (rc, err[-300:]))
    if not api.get("loaded"):
        raise core.HarnessError("corpus not loaded")
    public_all = dict((s["name"], s) for s in readelf.public_defined(lib))
    fails, outs = [], {}
    import re
    for k, (assign, shape) in enumerate(e["items"]):
        pfx = "a%ds" % k
        mine = lambda name: name.split("@")[0].startswith(pfx) or name.split("@")[0].startswith("use_" + pfx)
        f0 = len(fails)
        cls = "%s-%s" % (shape, "+".join(sorted(set(assign))))
        public = dict((n, s) for n, s in public_all.items() if mine(n))
        attached = set()
        for d in api["functions"] + api["variables"]:
            if not mine(d["name"]):
                continue
            if d["symbol"] is None:
                fails.append({"sig": "C17 api mismatch:interface-without-symbol %s" % cls, "what": "interface %s has no ELF symbol" % d["name"]})
                continue
            attached.add(d["symbol"])
            for a in (api["aliases"].get(d["symbol"]) or "").split(","):
                if a:
                    attached.add(a)
        unref = set(x for x in api["unreferenced_function_symbols"] + api["unreferenced_variable_symbols"] if mine(x))
        unref_all = set(unref)
        for u in unref:
            for a in (api["aliases"].get(u) or "").split(","):
                if a:
                    unref_all.add(a)
        both = attached & unref
        if both:
            fails.append({"sig": "C17 api mismatch:attached-and-unreferenced %s" % cls, "what": "symbols %s are attached to a declaration AND listed as unreferenced" % sorted(both)})
        neither = set(public) - attached - unref_all
        if neither:
            kinds = sorted(set(assign[int(x[len(pfx):])] for x in neither if x.startswith(pfx) and x[len(pfx):].isdigit()))
            fails.append({"sig": "C17 api mismatch:unaccounted-symbol %s %s" % ("+".join(kinds), cls), "what": "public symbols %s are neither attached to a declaration nor listed as unreferenced" % sorted(neither)})
        ghost = set(x for x in (attached | unref) if mine(x)) - set(public)
        if ghost:
            fails.append({"sig": "C17 api mismatch:non-public-symbol %s" % cls, "what": "symbols %s are exposed but are not public defined symbols for readelf" % sorted(ghost)})
        iface = set(d["name"] for d in api["functions"] + api["variables"])
        for i, kd in enumerate(assign):
            nm = "%s%d" % (pfx, i)
            if kd in ("dbg", "weak", "protected") and nm in public and nm not in iface:
                fails.append({"sig": "C17 api mismatch:definition-missing-from-interface %s %s" % (kd, cls), "what": "%s (%s, compiled with -g) is exported but not in the interface" % (nm, kd)})
        for f in fails[f0:]:
            f["element"] = {"items": [[assign, shape]], "cc": e["cc"]}
        outs["ok" if len(fails) == f0 else "bad"] = outs.get("ok" if len(fails) == f0 else "bad", 0) + 1
    return {"evaluations": len(e["items"]), "nontrivial_count": len(e["items"]), "outcomes": outs, "failures": fails[:8], "sample": {"assign": e["items"][0][0], "shape": e["items"][0][1]}}
