"""C15 — recorded type layouts match the compiler's layouts."""
import itertools
import os
import re
import subprocess

from .. import abixml, cbuild, core, pscommon as pc, progspace as ps, toolrun

LEVEL = "exploration"
ENGINE = "progspace"
TECHNIQUE = "bounded exhaustive exploration: every struct/union of <= 2 (quick) / <= 3 (thorough) members over a 14-type member alphabet incl. bit-fields, x compiler x DWARF version; oracle = the compiler itself (sizeof / offsetof / bit-field scan in a probe executable built with the same flags)"
RULE = ("member alphabet {char, short, int, long, double, int*, int[2], enum, nested struct, int:1, int:7, unsigned:17, long:33, char:3} (+ a zero-width int:0 separator variant); every struct with 1..n members and every "
        "2-member union, each reached from an exported function through a pointer, ~60 per binary; compilers gcc and clang, DWARF default (4 and 5 in the thorough tier); plus C++ classes with bases / virtual / empty base and "
        "two translation units defining different structs of the same name (different sizes; and four variants with the same size, member names and member types but different member offsets: bit-field widths, member alignment, packed member). Oracle: abidw's size-in-bits equals sizeof*8 and every layout-offset-in-bits equals offsetof*8 (bit-fields: position of the lowest bit set when the "
        "field alone is all-ones) as printed by a probe executable compiled from the same definitions with the same compiler. Non-trivial: every aggregate with >= 2 members or a bit-field.")
TEXT = "Exhaustive over the stated alphabet and member count; the reference layout comes from the compiler, never from a hand-written model."
NOTE = "x86-64 only; little-endian bit numbering; members of anonymous sub-aggregates are checked through their own named fields only."
ALPHA = [("c", ("b", "char"), None), ("s", ("b", "short"), None), ("i", ("b", "int"), None), ("l", ("b", "long"), None), ("d", ("b", "double"), None),
         ("p", ("p", ("b", "int")), None), ("a", ("a", ("b", "int"), 2), None), ("e", ("e", "E"), None), ("n", ("s", "N"), None),
         ("b1", ("b", "int"), 1), ("b7", ("b", "int"), 7), ("u17", ("b", "unsigned"), 17), ("l33", ("b", "long"), 33), ("c3", ("b", "char"), 3)]
A = dict((x[0], x) for x in ALPHA)
PACK = 60
CXX = r'''
struct Empty {};
struct B1 { char c; virtual ~B1() {} int b1; };
struct B2 { short s; long l; };
struct D1 : B1 { char d; };
struct D2 : B1, B2 { int x; };
struct D3 : Empty { int y; char z; };
struct V1 : virtual B2 { int v; };
D1 g_d1; D2 g_d2; D3 g_d3; V1 g_v1;   // objects force the complete class descriptions (vtables are emitted here)
'''
CXX_PROBE = r'''
#include <cstdio>
#include <cstddef>
#pragma GCC diagnostic ignored "-Winvalid-offsetof"
int main() {
  printf("S D1 %zu\n", sizeof(D1)); printf("M D1 d %zu\n", offsetof(D1, d) * 8);
  printf("S D2 %zu\n", sizeof(D2)); printf("M D2 x %zu\n", offsetof(D2, x) * 8);
  printf("S D3 %zu\n", sizeof(D3)); printf("M D3 y %zu\n", offsetof(D3, y) * 8); printf("M D3 z %zu\n", offsetof(D3, z) * 8);
  printf("S B1 %zu\n", sizeof(B1)); printf("M B1 c %zu\n", offsetof(B1, c) * 8); printf("M B1 b1 %zu\n", offsetof(B1, b1) * 8);
  printf("S B2 %zu\n", sizeof(B2)); printf("M B2 s %zu\n", offsetof(B2, s) * 8); printf("M B2 l %zu\n", offsetof(B2, l) * 8);
  printf("S V1 %zu\n", sizeof(V1)); printf("M V1 v %zu\n", offsetof(V1, v) * 8);
  return 0; }
'''


# (name, members of unit a, members of unit b, [(member, is bit-field)]): same size, names and types - only offsets differ
TWOTU_OFFSET_VARIANTS = [
    ("bitfield-widths-3-5-vs-4-4", "int a:3; int b:5; int c;", "int a:4; int b:4; int c;", [("a", True), ("b", True), ("c", False)]),
    ("bitfield-widths-33-7-vs-30-10", "long x:33; long y:7; char z;", "long x:30; long y:10; char z;", [("x", True), ("y", True), ("z", False)]),
    ("member-alignment", "char a; char b; int c;", "char a; char b __attribute__((aligned(2))); int c;", [("a", False), ("b", False), ("c", False)]),
    ("packed-member", "char a; short b; char c; int d;", "char a; short b __attribute__((packed)); char c; int d;", [("a", False), ("b", False), ("c", False), ("d", False)]),
]


def prepare(ctx):
    toolrun.tool("plain", "abidw")


def _combos(nmax, quick):
    out = []
    codes = [x[0] for x in ALPHA]
    for n in range(1, nmax + 1):
        for ms in itertools.product(codes, repeat=n):
            out.append(("struct", list(ms), False))
    for ms in itertools.product(codes, repeat=2):
        out.append(("union", list(ms), False))
        if any(A[m][2] is not None for m in ms):
            out.append(("struct", list(ms), True))       # with a zero-width separator between the members
    return out


def _unit(kind, ms, zero):
    members = []
    for i, m in enumerate(ms):
        members.append(("m%d" % i, A[m][1], A[m][2]))
        if zero and i == 0:
            members.append((None, ("b", "int:0"), None))
    types = [("enum", "E", [("EA", 0), ("EB", 1)]), ("struct", "N", [("x", ("b", "char"), None), ("y", ("b", "long"), None)]), (kind, "S", members)]
    S = ("s" if kind == "struct" else "u", "S")
    return ps.Unit(types, {"name": "f", "ret": ("b", "int"), "params": [("a", ("p", S))], "variadic": False}, tag="%s/%s%s" % (kind, "".join(ms), "/z" if zero else ""))


def stages(ctx):
    combos = _combos(2 if ctx.quick else 3, ctx.quick)
    cfgs = [("gcc", None), ("clang", None)] if ctx.quick else [("gcc", None), ("gcc", 4), ("gcc", 5), ("clang", None), ("clang", 4), ("clang", 5)]
    el = [{"combos": c, "cc": cc, "dwarf": dw} for c in pc.chunks(combos, PACK) for cc, dw in cfgs]
    el += [{"cxx": True, "cc": cc, "dwarf": dw} for cc, dw in cfgs] + [{"twotu": True, "cc": cc, "dwarf": dw} for cc, dw in cfgs]
    return [("all-aggregates", el)]


def _probe_source(units):
    lines = ["#include <stdio.h>", "#include <stddef.h>", "#include <string.h>"]
    body = []
    for idx, u in units:
        lines.append(u.emit_types())
        for d in u.types:
            if d[0] in ("struct", "union") and d[1].startswith("S_"):
                kw = d[0]
                body.append('printf("S %s %%zu\\n", sizeof(%s %s));' % (d[1], kw, d[1]))
                for m, t, b in d[2]:
                    if m is None:
                        continue
                    if b is None:
                        body.append('printf("M %s %s %%zu\\n", offsetof(%s %s, %s) * 8);' % (d[1], m, kw, d[1], m))
                    else:
                        body.append('{ %s %s x; unsigned char* p = (unsigned char*)&x; memset(&x, 0, sizeof x); x.%s = -1; size_t k; long pos = -1; '
                                    'for (k = 0; k < sizeof x * 8; ++k) if (p[k / 8] & (1u << (k %% 8))) { pos = (long)k; break; } printf("M %s %s %%ld\\n", pos); }' % (kw, d[1], m, d[1], m))
    return "\n".join(lines) + "\nint main(void) {\n" + "\n".join(body) + "\nreturn 0; }\n"


def _run_probe(exe):
    r = subprocess.run([exe], stdout=subprocess.PIPE, stderr=subprocess.PIPE, env=cbuild.ENV)
    if r.returncode != 0:
        raise core.HarnessError("probe failed: %s" % r.stderr[-200:])
    sizes, offs = {}, {}
    for line in r.stdout.decode().splitlines():
        p = line.split()
        if p[0] == "S":
            sizes[p[1]] = int(p[2]) * 8
        else:
            offs[(p[1], p[2])] = int(p[3])
    return sizes, offs


def _compare(doc, sizes, offs, cls_of, label, fails, outs):
    aggs = doc.aggregates()
    n = nt = 0
    for name, size in sizes.items():
        els = aggs.get(name)
        n += 1
        if not els:
            fails.append({"sig": "C15 abidw mismatch:type-missing %s" % cls_of(name), "what": "%s: aggregate %s is not in the ABIXML" % (label, name)})
            continue
        el = els[0]
        got = el.attrib.get("size-in-bits")
        bad = False
        if got is None or int(got) != size:
            bad = True
            fails.append({"sig": "C15 abidw mismatch:size %s" % cls_of(name), "what": "%s: %s has size-in-bits=%s, the compiler says %d" % (label, name, got, size)})
        mem = dict((m, o) for m, o, t in doc.members(el))
        nmem = 0
        for (agg, m), off in offs.items():
            if agg != name:
                continue
            nmem += 1
            if m not in mem:
                bad = True
                fails.append({"sig": "C15 abidw mismatch:member-missing %s" % cls_of(name), "what": "%s: member %s.%s is not recorded" % (label, name, m)})
            elif (mem[m] if mem[m] is not None else (0 if el.tag == "union-decl" else None)) != off:   # union members carry no offset attribute: all at 0
                bad = True
                fails.append({"sig": "C15 abidw mismatch:offset %s" % cls_of(name), "what": "%s: %s.%s has layout-offset-in-bits=%s, the compiler says %d" % (label, name, m, mem[m], off)})
        if nmem >= 2:
            nt += 1
        outs["match" if not bad else "mismatch"] = outs.get("match" if not bad else "mismatch", 0) + 1
    return n, nt


def evaluate(ctx, e):
    fl = ["-g"] + (["-gdwarf-%d" % e["dwarf"]] if e.get("dwarf") else [])
    cfg = "%s-dw%s" % (e["cc"], e.get("dwarf") or "def")
    fails, outs = [], {}
    if e.get("cxx"):
        lib = cbuild.compile_units([("k.cc", CXX, fl + ["-std=c++11"])], out_name="libk.so", link_flags=["-Wl,-soname,libk.so"], cc=e["cc"], tag="c15")
        exe = cbuild.compile_units([("p.cc", CXX + CXX_PROBE, fl + ["-std=c++11"])], out_name="probe", kind="exe", cc=e["cc"], tag="c15")
        cls_of = lambda n: "cxx-" + n + "-" + cfg
        label = "C++ classes (%s)" % cfg
    elif e.get("twotu"):
        a = "struct S_a { char c; long l; };\nint fa(struct S_a* p) { return p->c; }\nstruct Same { int a; };\nint ga(struct Same* p) { return p->a; }\n"
        b = "struct Same { double d; char e; int f; };\nint gb(struct Same* p) { return p->f; }\n"
        lib = cbuild.compile_units([("a.c", a, fl), ("b.c", b, fl)], out_name="libt.so", link_flags=["-Wl,-soname,libt.so"], cc=e["cc"], tag="c15")
        rc, doc, err = pc.run(ctx, "abidw", [lib])
        d = abixml.Doc(doc)
        same = d.aggregates().get("Same", [])
        got = sorted((int(x.attrib.get("size-in-bits", -1)), tuple(sorted(d.members(x)))) for x in same)
        want = sorted([(32, (("a", 0),)), (128, (("d", 0), ("e", 64), ("f", 96)))])
        got2 = sorted((s, tuple((m, o) for m, o, t in ms)) for s, ms in got)
        ok = got2 == want
        if not ok:
            fails.append({"sig": "C15 abidw mismatch:same-named-structs %s" % cfg, "what": "two TUs define different 'struct Same': recorded %s, expected %s" % (got2, want)})
        n2 = 2
        outs = {"match" if ok else "mismatch": 1}
        # same name, same size, same member names and types, different OFFSETS in the two units (bit-field widths, alignment):
        # each unit's interface must see the layout the compiler used for that unit
        for vname, da, db, members in TWOTU_OFFSET_VARIANTS:
            srcs = {}
            for tag, body in (("a", da), ("b", db)):
                srcs[tag] = "struct Same { %s };\nint g%s(struct Same* p) { return p != 0; }\n" % (body, tag)
            lib = cbuild.compile_units([("a.c", srcs["a"], fl), ("b.c", srcs["b"], fl)], out_name="libt.so", link_flags=["-Wl,-soname,libt.so"], cc=e["cc"], tag="c15v")
            rc, doc, err = pc.run(ctx, "abidw", [lib])
            if rc != 0:
                raise core.HarnessError("abidw failed on two-TU variant %s: %s" % (vname, err[-200:]))
            d = abixml.Doc(doc)
            for tag, body in (("a", da), ("b", db)):
                lines = ["#include <stdio.h>", "#include <stddef.h>", "#include <string.h>", "struct Same { %s };" % body, "int main(void) {", 'printf("S %zu\\n", sizeof(struct Same) * 8);']
                for m, isbf in members:
                    if isbf:
                        lines.append('{ struct Same x; unsigned char* p = (unsigned char*)&x; memset(&x, 0, sizeof x); x.%s = -1; size_t k; long pos = -1; '
                                     'for (k = 0; k < sizeof x * 8; ++k) if (p[k / 8] & (1u << (k %% 8))) { pos = (long)k; break; } printf("M %s %%ld\\n", pos); }' % (m, m))
                    else:
                        lines.append('printf("M %s %%zu\\n", offsetof(struct Same, %s) * 8);' % (m, m))
                lines.append("return 0; }")
                exe = cbuild.compile_units([("p.c", "\n".join(lines) + "\n", fl)], out_name="probe", kind="exe", cc=e["cc"], tag="c15v")
                r = subprocess.run([exe], stdout=subprocess.PIPE, env=cbuild.ENV)
                want_size, want = None, {}
                for line in r.stdout.decode().splitlines():
                    q = line.split()
                    if q[0] == "S":
                        want_size = int(q[1])
                    else:
                        want[q[1]] = int(q[2])
                fn = d.functions().get("g" + tag)
                n2 += 1
                got = None
                if fn is not None:
                    ptr = d.by_id.get(fn.find("parameter").attrib["type-id"])
                    cl = d.by_id.get(ptr.attrib["type-id"]) if ptr is not None else None
                    if cl is not None:
                        got = dict((m, o) for m, o, t in d.members(cl))
                if got != want:
                    fails.append({"sig": "C15 abidw mismatch:same-named-structs-offsets %s %s" % (vname, cfg),
                                  "what": "two TUs define 'struct Same' with different member offsets (%s): the type of g%s()'s parameter is recorded with offsets %s, the compiler used %s in that unit" % (vname, tag, got, want)})
                    outs["mismatch"] = outs.get("mismatch", 0) + 1
                else:
                    outs["match"] = outs.get("match", 0) + 1
        return {"evaluations": n2, "nontrivial_count": n2, "outcomes": outs, "failures": fails, "sample": {"two_tu": cfg}}
    else:
        units = [(i, _unit(k, ms, z).rename(str(i))) for i, (k, ms, z) in enumerate(e["combos"])]
        lib = ps.build_pack(units, cc=e["cc"], flags=fl)
        exe = cbuild.compile_units([("probe.c", _probe_source(units), fl)], out_name="probe", kind="exe", cc=e["cc"], tag="c15")
        tags = dict(("S_%d" % i, u.tag) for i, u in units)
        def cls_of(n):
            t = tags.get(n, n)
            kind, ms = t.split("/")[0], t.split("/")[1]
            return "%s-%s-%s" % (kind, "bitfield" if re.search(r"b1|b7|u17|l33|c3", ms) else "plain", cfg)
        label = "pack (%s)" % cfg
    sizes, offs = _run_probe(exe)
    rc, doc, err = pc.run(ctx, "abidw", [lib])
    if rc != 0:
        raise core.HarnessError("abidw failed: rc=%s %s" % (rc, err[-200:]))
    n, nt = _compare(abixml.Doc(doc), sizes, offs, cls_of, label, fails, outs)
    return {"evaluations": n, "nontrivial_count": nt, "outcomes": outs, "failures": fails[:12], "sample": {"config": cfg, "first": (e.get("combos") or ["c++"])[0]}}
