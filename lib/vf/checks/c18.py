"""C18 — recorded symbol tables match the ELF symbol table."""
import itertools
import os
import subprocess
import xml.etree.ElementTree as ET

from .. import cbuild, core, pscommon as pc, readelf, symlib, toolrun

LEVEL = "exploration"
ENGINE = "progspace"
TECHNIQUE = "bounded exhaustive exploration: a symbol-kind catalogue x output kind x linker x strip state, and every state of a small versioned-symbol universe x linker; oracle = binutils readelf on the same file"
RULE = ("catalogue program with one symbol of every kind {global / weak / alias / IFUNC / hidden / protected / static function; global / weak / alias / TLS / common / hidden variable; default and non-default versioned function}; "
        "built as shared object, PIE executable (-rdynamic) and relocatable object, linked by ld.bfd / ld.lld / ld.gold, kept or stripped (only .dynsym left); plus all 4^3 states of the versioned universe of C11 x 3 linkers. "
        "Oracle: the set of elf-symbol entries of abidw equals readelf's defined GLOBAL/WEAK symbols of DEFAULT/PROTECTED visibility in .symtab (if present, else .dynsym) on (name, version, default-version flag, binding, type, "
        "visibility, size when recorded); alias groups equal the address classes of same-kind symbols. Non-trivial: every binary.")
TEXT = "Complete cross of the catalogue with output kinds, linkers and strip states; complete versioned universe."
NOTE = "Function sizes are not recorded by abidw at all, so only variable sizes are compared. Version-definition pseudo symbols (ABS) are not part of the ABI and are excluded on both sides."
SRC = r'''
int base_fn(int x) { return x; }
int alias_fn(int) __attribute__((alias("base_fn")));
int weak_fn(int x) __attribute__((weak)); int weak_fn(int x) { return x; }
static int (*resolve_ifn(void))(int) { return base_fn; }
int ifunc_fn(int) __attribute__((ifunc("resolve_ifn")));
__attribute__((visibility("hidden"))) int hidden_fn(int x) { return x; }
__attribute__((visibility("protected"))) int prot_fn(int x) { return x; }
static int static_fn(int x) { return x; } int use(void) { return static_fn(1); }
int base_var = 1; extern int alias_var __attribute__((alias("base_var")));
int weak_var __attribute__((weak)) = 2;
__thread int tls_var = 3;
int common_var;
__attribute__((visibility("hidden"))) int hidden_var = 4;
int main(void) { return use(); }
'''
VERS = r'''
int v1_impl(void) { return 1; } __asm__(".symver v1_impl,vfn@V1");
int v2_impl(void) { return 2; } __asm__(".symver v2_impl,vfn@@V2");
'''
TYPE = {"FUNC": "func-type", "OBJECT": "object-type", "TLS": "tls-type", "IFUNC": "gnu-ifunc-type", "GNU_IFUNC": "gnu-ifunc-type", "COMMON": "common-type"}
BIND = {"GLOBAL": "global-binding", "WEAK": "weak-binding", "UNIQUE": "gnu-unique-binding"}
VIS = {"DEFAULT": "default-visibility", "PROTECTED": "protected-visibility"}


def prepare(ctx):
    toolrun.tool("plain", "abidw")


def stages(ctx):
    el = []
    for kind in ("shared", "exe", "reloc"):
        for ld in (("bfd", "lld", "gold") if kind != "reloc" else ("bfd",)):
            for strip in ((False, True) if kind != "reloc" else (False,)):
                for g in (True, False):
                    el.append({"cat": True, "kind": kind, "ld": ld, "strip": strip, "g": g})
    states = list(itertools.product(symlib.STATES, repeat=3))
    for st in (states[::3] if ctx.quick else states):
        for ld in ("bfd", "lld", "gold"):
            el.append({"state": list(st), "ld": ld})
    return [("catalogue+versioned-universe", el)]


def _build(e):
    if "state" in e:
        return cbuild.compile_units([("s.c", symlib.source(tuple(e["state"])), [])],
                                    link_flags=["-fuse-ld=" + e["ld"], "-Wl,--version-script=v.map", "-Wl,-soname,libs.so"], out_name="libs.so",
                                    extra_files={"v.map": "V1 { local: *_impl; };\n"}, tag="c18")
    fl = ["-fcommon"] + (["-g"] if e["g"] else [])
    post = [["strip", "--strip-all", "{out}"]] if e["strip"] else None
    if e["kind"] == "shared":
        return cbuild.compile_units([("c.c", SRC + VERS, fl)], link_flags=["-fuse-ld=" + e["ld"], "-Wl,--version-script=c.map", "-Wl,-soname,libc18.so"],
                                    out_name="libc18.so", extra_files={"c.map": "V1 { local: *_impl; };\nV2 { } V1;\n"}, post=post, tag="c18")
    if e["kind"] == "exe":
        return cbuild.compile_units([("c.c", SRC, fl + ["-fPIE"])], link_flags=["-fuse-ld=" + e["ld"], "-pie", "-rdynamic"], out_name="c18exe", kind="exe", post=post, tag="c18")
    return cbuild.compile_units([("c.c", SRC, fl)], out_name="c18.o", kind="reloc", tag="c18")


def evaluate(ctx, e):
    path = _build(e)
    rc, doc, err = pc.run(ctx, "abidw", [path])
    cls = ("state-%s" % e["ld"]) if "state" in e else "%s-%s%s%s" % (e["kind"], e["ld"], "-stripped" if e["strip"] else "", "" if e["g"] else "-nodebug")
    fails = []
    if rc != 0:
        # a binary without any public symbol is legitimately refused
        want = readelf.public_defined(path)
        if want:
            fails.append({"sig": "C18 abidw exit%s %s" % (rc, cls), "what": "abidw fails on %s: %s" % (path, err[-200:])})
        return {"evaluations": 1, "nontrivial_count": 1, "outcomes": {"abidw-failed": 1}, "failures": fails}
    root = ET.fromstring(doc)
    got = {}
    aliases = {}
    for sec, isfn in (("elf-function-symbols", True), ("elf-variable-symbols", False)):
        s = root.find(sec)
        for el in (s if s is not None else []):
            k = (el.attrib["name"], el.attrib.get("version"))
            got[k] = dict(el.attrib, isfn=isfn)
            if el.attrib.get("alias"):
                aliases[k] = set(el.attrib["alias"].split(","))
    want = {}
    for s in readelf.public_defined(path):
        want[(s["name"], s["version"])] = s
    for k in sorted(set(want) - set(got), key=str):
        fails.append({"sig": "C18 abidw mismatch:symbol-missing %s %s" % (want[k]["type"], cls), "what": "readelf lists %s %s%s (bind %s) but abidw does not" % (want[k]["type"], k[0], "@" + k[1] if k[1] else "", want[k]["bind"])})
    for k in sorted(set(got) - set(want), key=str):
        fails.append({"sig": "C18 abidw mismatch:symbol-extra %s %s" % (got[k].get("type"), cls), "what": "abidw lists %s%s which is not a public defined symbol for readelf" % (k[0], "@" + k[1] if k[1] else "")})
    for k in set(got) & set(want):
        g, w = got[k], want[k]
        exp = {"type": TYPE.get(w["type"]), "binding": BIND.get(w["bind"]), "visibility": VIS.get(w["vis"])}
        if w["type"] == "OBJECT" and w["ndx"] == "COM":
            exp["type"] = "common-type"
        for a, v in exp.items():
            if g.get(a) != v and not (a == "type" and w["type"] == "OBJECT" and g.get("is-common") == "yes"):
                fails.append({"sig": "C18 abidw mismatch:%s %s %s" % (a, w["type"], cls), "what": "%s: abidw says %s=%s, readelf %s" % (k[0], a, g.get(a), v)})
        if k[1] and (g.get("is-default-version") == "yes") != w["default"]:
            fails.append({"sig": "C18 abidw mismatch:default-version %s" % cls, "what": "%s@%s: abidw is-default-version=%s, readelf default=%s" % (k[0], k[1], g.get("is-default-version"), w["default"])})
        if "size" in g and int(g["size"]) != w["size"]:
            fails.append({"sig": "C18 abidw mismatch:size %s %s" % (w["type"], cls), "what": "%s: abidw size=%s, readelf %d" % (k[0], g["size"], w["size"])})
    # alias classes: same address, same kind (function / variable)
    groups = {}
    for k, w in want.items():
        if k in got and w["ndx"] not in ("COM",):
            groups.setdefault((w["value"], got[k]["isfn"], w["type"] == "TLS"), set()).add(k[0] + ("@@" + k[1] if k[1] and w["default"] else "@" + k[1] if k[1] else ""))
    got_groups = set()
    for k, al in aliases.items():
        w = want.get(k)
        me = k[0] + (("@@" if got[k].get("is-default-version") == "yes" else "@") + k[1] if k[1] else "")
        got_groups.add(frozenset(al | {me}))
    want_groups = set(frozenset(g) for g in groups.values() if len(g) > 1)
    if got_groups != want_groups:
        fails.append({"sig": "C18 abidw mismatch:alias-classes %s" % cls, "what": "alias groups %s, address classes %s" % (sorted(map(sorted, got_groups)), sorted(map(sorted, want_groups)))})
    return {"evaluations": 1, "nontrivial_count": 1, "outcomes": {"match" if not fails else "mismatch": 1}, "failures": fails[:8],
            "sample": {"case": cls, "symbols": len(want)}}
