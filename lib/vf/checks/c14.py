"""C14 — outputs are deterministic."""
import hashlib
import os
import shutil
import subprocess

from .. import build, core, pscommon as pc, seeds, toolrun

LEVEL = "exploration"
ENGINE = "progspace"
TECHNIQUE = ("bounded exhaustive exploration: every node binary / edit pair of the program space run under every member of a fixed set of 10 execution policies (ASLR on/off, MALLOC_PERTURB_, working directory, and an interposed allocator "
             "with ascending, descending, striped and padded placement at different arena bases, which reverses or scrambles the address order of heap objects deterministically); oracle = byte-identical stdout and equal exit status across all policies")
RULE = ("policies: P0 default; P1 setarch -R (no ASLR); P2 MALLOC_PERTURB_=85; P3 MALLOC_PERTURB_=170 with cwd=/; P4..P7 LD_PRELOAD harness/alloc_shim.c in modes up, down, stripe, pad; P8 down at arena base 0x300000000000; P9 stripe at base 0x100000000000. "
        "Runs: two programs in which many types share one source position (template instantiations; structs, enums and typedefs from one macro expansion) and every node binary: abidw {default, --load-all-types --annotate}; per breaking-edit pack pair abidiff {default, --leaf-changes-only --impacted-interfaces} both directions; per package pair abipkgdiff (parallel) on 3-library directories. "
        "Oracle: (exit status, stdout) identical for all 10 policies; the shim must report a non-zero number of bytes served (it is live). Non-trivial: every (run, policy).")
TEXT = "All node binaries and pack pairs of the tier x 10 policies."
NOTE = ("ASLR itself cannot be enumerated; the interposed allocator makes heap address order a controlled input instead (descending / striped placement inverts the order pointer-keyed containers would see), and the ASLR policies are kept as extra members of the set.")
_shim = None
POLICIES = [("P0-default", {}, None, None), ("P1-noaslr", {}, None, ["setarch", "x86_64", "-R"]), ("P2-perturb85", {"MALLOC_PERTURB_": "85"}, None, None), ("P3-perturb170-cwd", {"MALLOC_PERTURB_": "170"}, "/", None),
            ("P4-shim-up", {"VF_ALLOC_MODE": "up"}, None, None), ("P5-shim-down", {"VF_ALLOC_MODE": "down"}, None, None), ("P6-shim-stripe", {"VF_ALLOC_MODE": "stripe"}, None, None),
            ("P7-shim-pad", {"VF_ALLOC_MODE": "pad"}, None, None), ("P8-shim-down-base3", {"VF_ALLOC_MODE": "down", "VF_ALLOC_BASE": "300000000000"}, None, None),
            ("P9-shim-stripe-base1", {"VF_ALLOC_MODE": "stripe", "VF_ALLOC_BASE": "100000000000"}, None, None)]


# programs in which several types share one source position (file, line, column): any order that is only decided by the
# position leaves them to the iteration order of pointer-keyed containers
TIES = {
    "templates.cc": r'''
template <typename T> struct Box { T v; T get() const { return v; } };
template <typename T, int N> struct Arr { T a[N]; };
Box<int> b1; Box<long> b2; Box<char> b3; Box<double> b4; Box<Box<int> > b5; Box<short*> b6;
Arr<int, 2> a1; Arr<int, 3> a2; Arr<char, 2> a3; Arr<Box<int>, 2> a4;
int use(Box<int>* p, Arr<char, 2>* q) { return p->get() + q->a[0]; }
''',
    "macro.c": r'''
#define THREE(A, B, C) struct A { int x; }; struct B { long y; char c; }; struct C { struct A* pa; struct B* pb; }; enum A##_e { A##_0 }; typedef struct B B##_t;
THREE(alpha, beta, gamma) THREE(delta, epsilon, zeta)
struct alpha va; struct beta vb; struct gamma vc; struct delta vd; struct epsilon ve; struct zeta vz; enum alpha_e e1; enum delta_e e2; beta_t t1; epsilon_t t2;
int f(struct gamma* g, struct zeta* z) { return g->pa->x + (int)z->pb->y; }
''',
}


def _build_shim():
    src = os.path.join(build.VERIF, "harness", "alloc_shim.c")
    h = hashlib.sha256(open(src, "rb").read()).hexdigest()[:16]
    d = os.path.join(build.VERIF, "build", "shim")
    os.makedirs(d, exist_ok=True)
    out = os.path.join(d, "alloc_shim-%s.so" % h)
    if not os.path.exists(out):
        tmp = out + ".%d" % os.getpid()
        subprocess.check_call(["gcc", "-O2", "-shared", "-fPIC", "-o", tmp, src])
        os.replace(tmp, out)
    return out


def prepare(ctx):
    global _shim
    _shim = _build_shim()
    for t in ("abidw", "abidiff", "abipkgdiff"):
        toolrun.tool("plain", t)


def stages(ctx):
    nodes = pc.node_binary_specs(ctx.quick)
    if ctx.quick:
        # every seed program, every other catalogue pack
        nodes = [b for i, b in enumerate(nodes) if "seed" in b or i % 2 == 0]
    packs = pc.mixed_packs(ctx.quick)
    if ctx.quick:
        packs = packs[::4]
    el = [{"kind": "ties", "name": n} for n in TIES] + [{"kind": "node", "b": b} for b in nodes] + [{"kind": "pair", "pack": p} for p in packs] + [{"kind": "pkg", "seeds": ["basic", "nested", "recursive"]}, {"kind": "pkg", "seeds": ["cxx", "two_tu", "symbols"]}]
    return [("runs-x-10-policies", el)]


def _run(ctx, tool, args, pol, report):
    name, env, cwd, wrap = pol
    e = ctx.env(**toolrun.SAN_ENV)
    e.update(env)
    if "VF_ALLOC_MODE" in env:
        e["LD_PRELOAD"] = _shim
        e["VF_ALLOC_REPORT"] = report
    cmd = (wrap or []) + [toolrun.tool("plain", tool)] + list(args)
    return core.run(cmd, timeout=300, env=e, cwd=cwd)


def evaluate(ctx, e):
    d = ctx.tmpdir("c14")
    runs = []
    if e["kind"] == "ties":
        from .. import cbuild
        path = cbuild.compile_units([(e["name"], TIES[e["name"]], ["-g"] + (["-std=c++11"] if e["name"].endswith(".cc") else []))], link_flags=["-Wl,-soname,libties.so"], out_name="libties.so", tag="c14")
        desc = "ties:" + e["name"]
        runs = [("abidw", ["--no-corpus-path", path]), ("abidw", ["--load-all-types", "--annotate", path]), ("abidiff", [path, path])]
    elif e["kind"] == "node":
        path = pc.node_binary(e["b"])
        desc = e["b"]["id"]
        runs = [("abidw", ["--no-corpus-path", path]), ("abidw", ["--load-all-types", "--annotate", path])]
    elif e["kind"] == "pair":
        v1, v2, info = pc.build_pair(e["pack"], "breaking")
        desc = "pack starting with %s" % (e["pack"][0],)
        runs = [("abidiff", [v1, v2]), ("abidiff", ["--leaf-changes-only", "--impacted-interfaces", v2, v1])]
    else:
        p1, p2 = os.path.join(d, "p1", "lib"), os.path.join(d, "p2", "lib")
        os.makedirs(p1)
        os.makedirs(p2)
        for s in e["seeds"]:
            shutil.copy(seeds.build(s), p1)
            shutil.copy(seeds.build(s, True), p2)
        desc = "package of %s" % e["seeds"]
        runs = [("abipkgdiff", [os.path.join(d, "p1"), os.path.join(d, "p2")])]
    fails, outs = [], {}
    n = 0
    for tool, args in runs:
        ref = None
        for pol in POLICIES:
            rep = os.path.join(d, "alloc.rep")
            if os.path.exists(rep):
                os.unlink(rep)
            rc, out, err = _run(ctx, tool, args, pol, rep)
            n += 1
            if "VF_ALLOC_MODE" in pol[1]:
                try:
                    served = int(open(rep).read().strip())
                except (OSError, ValueError):
                    served = 0
                if served <= 0:
                    raise core.HarnessError("allocator shim not live under %s for %s (rc=%s, %s)" % (pol[0], tool, rc, err[-200:]))
            cur = (rc, out)
            if ref is None:
                ref = cur
                if not isinstance(rc, int) or rc < 0 or rc & 1:
                    fails.append({"sig": "C14 %s abnormal-exit" % tool, "what": "%s %s on %s under %s: rc=%s %s" % (tool, args[:-1], desc, pol[0], rc, err[-300:])})
                    break
                continue
            if cur != ref:
                k = "exit" if cur[0] != ref[0] else "stdout"
                a, b = ref[1].decode(errors="replace").splitlines(), out.decode(errors="replace").splitlines()
                first = next((i for i in range(min(len(a), len(b))) if a[i] != b[i]), min(len(a), len(b)))
                fails.append({"sig": "C14 %s %s-differs %s" % (tool, k, pol[0].split("-", 1)[1]),
                              "what": "%s %s on %s: %s under %s differs from P0 (exit %s vs %s); first differing line %d: %r vs %r" % (tool, " ".join(args[:-2]), desc, k, pol[0], rc, ref[0], first + 1, a[first:first + 1], b[first:first + 1])})
                outs["differs"] = outs.get("differs", 0) + 1
            else:
                outs["identical"] = outs.get("identical", 0) + 1
    shutil.rmtree(d, ignore_errors=True)
    return {"evaluations": n, "nontrivial_count": n, "outcomes": outs, "failures": fails[:10], "sample": {"kind": e["kind"], "what": desc}}
