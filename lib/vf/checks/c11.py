"""C11 — removal in one direction is addition in the other."""
import os

from .. import cbuild, core, pscommon as pc, report_parser, symlib

LEVEL = "exploration"
ENGINE = "progspace"
TECHNIQUE = "bounded exhaustive exploration: every mixed pack of breaking edges and every state pair of a small versioned-symbol universe, each compared in both argument orders"
RULE = ("(a) mixed packs of C10 with and without debug info; (b) symbol universe: 2 functions + 1 variable, each in {absent, unversioned, default version @@V1, non-default version @V1} in the old and in the new binary "
        "(all 4^3 x 4^3 ordered pairs with <= 2 differing symbols in quick, all pairs in thorough), plus alias changes; (c) a function with debug info that exists unversioned, as symq@@V1, as symq@V1 next to symq@@V2, or as symq@@V2 only (all 10 state pairs). Oracle: names listed as removed by abidiff A B equal names listed as added by abidiff B A "
        "(functions, variables, symbols not referenced by debug info) and vice versa; both directions list the same set of changed interfaces. Non-trivial: pairs whose two binaries differ.")
TEXT = "Both argument orders of every pair, with --no-default-suppression; added interfaces are shown by default."
NOTE = "Interfaces are identified by the generated names f_<n>/g_<n>/sym<n>; pretty names may differ between directions and are not compared."
VERS_MAP = "V1 { global: *; };\n"
STATES = ["absent", "plain", "default", "nondefault"]


def prepare(ctx):
    from .. import toolrun
    toolrun.tool("plain", "abidiff")


def _sym_lib(state, debug):
    return symlib.build(tuple(state), debug)


TWOV = ["none", "plain", "v1-default", "v1-compat+v2-default", "v2-default"]


def _twov_lib(state):
    """libq.so (with debug info) exporting function symq in one of the TWOV states."""
    src = []
    if state == "plain":
        src.append("int symq(int x) { return x; }")
    if state == "v1-default":
        src += ["int symq_v1(int x) { return x; }", '__asm__(".symver symq_v1,symq@@V1");']
    if state == "v1-compat+v2-default":
        src += ["int symq_v1(int x) { return x; }", '__asm__(".symver symq_v1,symq@V1");', "long symq_v2(long x) { return x; }", '__asm__(".symver symq_v2,symq@@V2");']
    if state == "v2-default":
        src += ["long symq_v2(long x) { return x; }", '__asm__(".symver symq_v2,symq@@V2");']
    src.append("int zz_keep(void) { return 0; }")
    return cbuild.compile_units([("q.c", "\n".join(src) + "\n", ["-g"])], link_flags=["-Wl,--version-script=q.map", "-Wl,-soname,libq.so"], out_name="libq.so",
                                extra_files={"q.map": "V1 { local: *_v1; *_v2; };\nV2 { } V1;\n"}, tag="c11q")


def stages(ctx):
    import itertools
    packs = pc.mixed_packs(ctx.quick)
    el = [{"pack": p, "g": g} for p in packs for g in (True, False)]
    states = list(itertools.product(STATES, repeat=3))
    pairs = []
    for a in states:
        for b in states:
            nd = sum(1 for x, y in zip(a, b) if x != y)
            if a < b and 0 < nd <= (2 if ctx.quick else 3):
                pairs.append((a, b))
    if ctx.quick:
        pairs = pairs[::4]
    el += [{"sym": [list(a), list(b)], "g": g} for a, b in pairs for g in ((False,) if ctx.quick else (False, True))]
    el += [{"twov": [a, b]} for i, a in enumerate(TWOV) for b in TWOV[i + 1:]]
    return [("packs+symbol-universe", el)]


SECS = [("removed_functions", "added_functions"), ("removed_variables", "added_variables"),
        ("removed_function_symbols", "added_function_symbols"), ("removed_variable_symbols", "added_variable_symbols")]
RX = r"\b([fg]_\d+|sym[abvq](?:@@?V[12])?)"


def evaluate(ctx, e):
    if "pack" in e:
        v1, v2, info = pc.build_pair(e["pack"], "breaking", flags=("-g",) if e["g"] else ())
        cls = "pack-" + ("debug" if e["g"] else "nodebug")
    elif "twov" in e:
        v1, v2 = _twov_lib(e["twov"][0]), _twov_lib(e["twov"][1])
        cls = "two-versions-%s->%s" % tuple(e["twov"])
        e = dict(e, g=True, sym=e["twov"])
    else:
        v1, v2 = _sym_lib(tuple(e["sym"][0]), e["g"]), _sym_lib(tuple(e["sym"][1]), e["g"])
        trans = sorted(set("%s->%s" % (x, y) for x, y in zip(e["sym"][0], e["sym"][1]) if x != y))
        cls = "symbols-" + "+".join(trans) + ("-debug" if e["g"] else "")
    if "twov" in e:
        pass
    rc12, o12, e12 = pc.abidiff(ctx, v1, v2)
    rc21, o21, e21 = pc.abidiff(ctx, v2, v1)
    for rc, er in ((rc12, e12), (rc21, e21)):
        if not isinstance(rc, int) or rc < 0 or (rc & 3):
            raise core.HarnessError("abidiff failed: rc=%s %s" % (rc, er[-300:]))
    r12, r21 = report_parser.parse(o12), report_parser.parse(o21)
    fails = []
    for rem, add in SECS:
        for d, (ra, rb) in (("fwd", (r12, r21)), ("bwd", (r21, r12))):
            a = sorted(pc.names_in(ra, [rem], RX))
            b = sorted(pc.names_in(rb, [add], RX))
            if a != b:
                fails.append({"sig": "C11 abidiff mismatch:%s-vs-%s %s" % (rem, add, cls),
                              "what": "%s: A->B lists %s as %s but B->A lists %s as %s" % (d, a, rem, b, add)})
                break
    c12 = sorted(pc.names_in(r12, ["changed_functions", "changed_variables"], RX))
    c21 = sorted(pc.names_in(r21, ["changed_functions", "changed_variables"], RX))
    if c12 != c21:
        fails.append({"sig": "C11 abidiff mismatch:changed-sets %s" % cls, "what": "A->B reports changes for %s, B->A for %s" % (c12, c21)})
    return {"evaluations": 2, "nontrivial_count": 1, "outcomes": {"symmetric" if not fails else "asymmetric": 1}, "failures": fails,
            "sample": {"case": e.get("sym") or e["pack"][0], "debug_info": e["g"]}}
