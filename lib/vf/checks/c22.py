"""C22 — a suppression that matches nothing changes nothing."""
import itertools
import os

from .. import core, pscommon as pc

LEVEL = "exploration"
ENGINE = "progspace"
TECHNIQUE = "bounded exhaustive exploration: every mixed pack of breaking edges x every suppression of a catalogue of unsatisfiable specifications (each section kind x each selecting property), singly and in all pairs"
RULE = ("packs of C10 (both directions); catalogue: for [suppress_type], [suppress_function], [suppress_variable], [suppress_file] every selecting property with a value the generator's model proves unsatisfiable "
        "(names under the reserved prefix zz_, anchored regexes that match no generated name, file_name / soname regexes of another file, type_kind absent from the programs (also as the ONLY unsatisfiable constraint, next to name_regexp = .*, on packs of plain structs that contain no union / enum / typedef / array), symbol_version never used, "
        "source locations in no generated file, change kinds combined with unmatched names), ~60 files and all their pairs (thorough). Oracle: stdout and exit status identical to the run without --suppressions. "
        "Non-trivial: every (pack, direction, suppression).")
TEXT = "Complete catalogue x pack cross; the reference is the same comparison without the suppression."
NOTE = "All runs use --no-default-suppression. Unsatisfiability follows from the name space of the generated programs (f_<n>, g_<n>, S_<n>, ... never start with zz_)."
CAT = []
for sec, props in (
    ("suppress_type", ["name = zz_nothing", "name_regexp = ^zz_.*$", "name_not_regexp = .*", "type_kind = enum\n  name = zz_nothing", "file_name_regexp = ^zz_other\\\\.so$\n  name_regexp = .*",
                       "soname_regexp = ^zz_other\\\\.so$\n  name_regexp = .*", "source_location_not_in = zz_a.h\n  name = zz_nothing", "source_location_not_regexp = ^zz_\n  name = zz_nothing",
                       "accessed_through = reference\n  name = zz_nothing", "has_data_member_inserted_at = end\n  name = zz_nothing", "has_data_member_inserted_between = {0, end}\n  name_regexp = ^zz_",
                       "changed_enumerators = ZZ_A, ZZ_B\n  type_kind = enum\n  name = zz_nothing", "name = zz_nothing\n  drop = yes", "label = l1\n  name = zz_nothing",
                       "type_kind = typedef\n  name_regexp = ^zz_", "type_kind = class\n  name = zz_nothing", "type_kind = array\n  name_regexp = ^zz_"]),
    ("suppress_function", ["name = zz_nothing", "name_regexp = ^zz_.*$", "name_not_regexp = .*", "symbol_name = zz_nothing", "symbol_name_regexp = ^zz_", "symbol_name_not_regexp = .*",
                           "symbol_version = ZZ_9", "symbol_version_regexp = ^ZZ_", "return_type_name = zz_t\n  name = zz_nothing", "return_type_regexp = ^zz_\n  name_regexp = ^zz_", "parameter = '0 zz_t\n  name = zz_nothing",
                           "change_kind = added-function\n  name = zz_nothing", "change_kind = all\n  symbol_name = zz_nothing", "file_name_regexp = ^zz_other\n  name_regexp = .*", "soname_regexp = ^zz_other\n  name_regexp = .*",
                           "allow_other_aliases = yes\n  name = zz_nothing", "name = zz_nothing\n  drop = yes", "label = l2\n  name = zz_nothing"]),
    ("suppress_variable", ["name = zz_nothing", "name_regexp = ^zz_.*$", "name_not_regexp = .*", "symbol_name = zz_nothing", "symbol_name_regexp = ^zz_", "symbol_name_not_regexp = .*", "symbol_version = ZZ_9",
                           "symbol_version_regexp = ^ZZ_", "type_name = zz_t\n  name = zz_nothing", "type_name_regexp = ^zz_\n  name_regexp = ^zz_", "change_kind = added-variable\n  name = zz_nothing",
                           "file_name_regexp = ^zz_other\n  name_regexp = .*", "soname_regexp = ^zz_other\n  name_regexp = .*", "name = zz_nothing\n  drop = yes"]),
    ("suppress_file", ["file_name_regexp = ^zz_other\\\\.so$", "soname_regexp = ^zz_other\\\\.so$", "file_name_not_regexp = .*", "soname_not_regexp = .*", "label = l3\n  file_name_regexp = ^zz_"]),
):
    for p in props:
        CAT.append("[%s]\n  %s\n" % (sec, p))


def prepare(ctx):
    from .. import toolrun
    toolrun.tool("plain", "abidiff")


# suppressions whose ONLY unsatisfiable constraint is the type kind: used on packs of plain structs (members char/int/long/int*,
# reached by pointer or by value), which contain no union, enum, typedef or array type
KIND_ONLY = ["[suppress_type]\n  type_kind = %s\n  name_regexp = .*\n" % k for k in ("union", "enum", "typedef", "array")]
CAT_ALL = CAT + KIND_ONLY


def _plain_struct_packs(quick):
    specs = [{"k": "struct", "m": list(ms), "p": p} for n in (1, 2) for ms in itertools.product(["c", "i", "l", "p"], repeat=n) for p in ("ptr", "byval")]
    edges = [e for e in pc.edge_list(specs, "breaking") if not e[1].startswith(("remove-function", "add-parameter", "remove-parameter", "change-return"))]
    if quick:
        edges = edges[::3]
    return pc.chunks([list(e) for e in edges], 24)


def stages(ctx):
    packs = pc.mixed_packs(ctx.quick)
    sel = packs[::3] if ctx.quick else packs
    kind_ids = list(range(len(CAT), len(CAT_ALL)))
    st = [("singles", [{"pack": p, "ids": list(range(len(CAT)))} for p in sel] + [{"pack": p, "ids": kind_ids} for p in _plain_struct_packs(ctx.quick)])]
    if not ctx.quick:
        pairs = list(itertools.combinations(range(len(CAT)), 2))
        st.append(("pairs", [{"pack": p, "pairs": pairs} for p in packs[:4]]))
    return st


def evaluate(ctx, e):
    v1, v2, info = pc.build_pair(e["pack"], "breaking")
    d = ctx.tmpdir("c22")
    fails, outs = [], {}
    n = 0
    combos = [[i] for i in e.get("ids", [])] + [list(p) for p in e.get("pairs", [])]
    for direction, (a, b) in (("fwd", (v1, v2)), ("bwd", (v2, v1))):
        rc0, out0, err0 = pc.abidiff(ctx, a, b)
        for combo in combos:
            sp = os.path.join(d, "s.suppr")
            with open(sp, "w") as f:
                f.write("".join(CAT_ALL[i] for i in combo))
            rc, out, err = pc.abidiff(ctx, a, b, ["--suppressions", sp])
            n += 1
            if rc != rc0 or out != out0:
                first = CAT_ALL[combo[0]].split("\n")
                cls = first[0].strip("[]") + "/" + first[1].split("=")[0].strip() + ("+more" if len(combo) > 1 or len(first) > 3 else "")
                fails.append({"sig": "C22 abidiff mismatch:%s %s" % ("exit-status" if rc != rc0 else "report", cls),
                              "what": "suppression %r changes the result (%s): exit %s vs %s, output differs: %s" % ("".join(CAT_ALL[i] for i in combo), direction, rc, rc0, out != out0),
                              "element": {"pack": e["pack"], "ids": combo} if len(combo) == 1 else {"pack": e["pack"], "pairs": [combo]}})
                outs["changed"] = outs.get("changed", 0) + 1
            else:
                outs["unchanged"] = outs.get("unchanged", 0) + 1
    return {"evaluations": n, "nontrivial_count": n, "outcomes": outs, "failures": fails[:10], "sample": {"suppression": CAT_ALL[combos[0][0]], "units": len(info)}}
