"""C13 — leaf-change report mode gives the same verdict as the default mode."""
import os
import re

from .. import core, pscommon as pc, report_parser

LEVEL = "exploration"
ENGINE = "progspace"
TECHNIQUE = "bounded exhaustive exploration: every mixed pack of breaking and harmless edges, forward and backward, with and without a suppression; default mode vs --leaf-changes-only --impacted-interfaces"
RULE = ("packs of C10 plus packs of harmless edges, each direction, without suppression and with one hiding a third of the functions; oracle: equal exit status; every interface listed as changed by the default mode "
        "appears in leaf mode either as a [C] entry itself or in the 'impacted interfaces' list of some changed leaf type (or among removed/added entries). Non-trivial: every (pack, direction, suppression).")
TEXT = "Complete over the generated packs; interfaces identified by generated names."
NOTE = "Leaf-mode text is searched for the interface names after locating the leaf-type blocks; unknown summary lines make the parser fail loudly."
SUP = "[suppress_function]\n  name_regexp = ^f_[0-9]*[0-2]$\n"


def prepare(ctx):
    from .. import toolrun
    toolrun.tool("plain", "abidiff")


def stages(ctx):
    packs = pc.mixed_packs(ctx.quick)
    specs = pc.all_specs(ctx.quick)
    hedges = pc.chunks(pc.edge_list(specs, "harmless"), 24)
    return [("packs", [{"pack": p, "cls": "breaking"} for p in packs] + [{"pack": p, "cls": "harmless"} for p in hedges])]


def evaluate(ctx, e):
    v1, v2, info = pc.build_pair(e["pack"], e["cls"])
    d = ctx.tmpdir("c13")
    sp = os.path.join(d, "s.suppr")
    with open(sp, "w") as f:
        f.write(SUP)
    fails, outs = [], {}
    n = 0
    for direction, (a, b) in (("fwd", (v1, v2)), ("bwd", (v2, v1))):
        for sname, so in (("none", []), ("third", ["--suppressions", sp])):
            extra = ["--harmless"] if e["cls"] == "harmless" else []
            rc0, out0, err0 = pc.abidiff(ctx, a, b, so + extra)
            rc1, out1, err1 = pc.abidiff(ctx, a, b, so + extra + ["--leaf-changes-only", "--impacted-interfaces"])
            n += 2
            for rc, er in ((rc0, err0), (rc1, err1)):
                if not isinstance(rc, int) or rc < 0 or (rc & 3):
                    raise core.HarnessError("abidiff failed: rc=%s %s" % (rc, er[-300:]))
            cls = "%s-%s-%s" % (e["cls"], direction, sname)
            if rc0 != rc1:
                fails.append({"sig": "C13 abidiff mismatch:exit-status %s" % cls, "what": "default mode exits %s, leaf mode exits %s" % (rc0, rc1)})
            rep0 = report_parser.parse(out0)
            changed = pc.names_in(rep0, ["changed_functions", "changed_variables"])
            leaf_names = set(re.findall(r"\b([fg]_\d+)\b", out1))
            missing = sorted(changed - leaf_names)
            if missing:
                lab = dict((str(i[0]), i[5]) for i in info)
                ecls = sorted(set(re.sub(r"\W+", "_", re.sub(r"@\d+", "", lab.get(m.split("_")[1], "?"))).strip("_") for m in missing))
                for ec in ecls:
                    fails.append({"sig": "C13 abidiff mismatch:interface-missing-in-leaf-mode %s %s" % (cls, ec),
                                  "what": "changed in default mode but neither reported nor impacted in leaf mode: %s (edits %s)" % (missing[:6], [lab.get(m.split("_")[1]) for m in missing[:6]])})
            outs["agree" if not fails else "disagree"] = outs.get("agree" if not fails else "disagree", 0) + 1
    return {"evaluations": n, "nontrivial_count": n // 2, "outcomes": outs, "failures": fails, "sample": {"class": e["cls"], "units": len(info), "first_edge": e["pack"][0]}}
