"""C43 — the debug-info format does not change the verdict."""
import itertools

from .. import cbuild, core, pscommon as pc, seeds, toolrun

LEVEL = "exploration"
ENGINE = "progspace"
TECHNIQUE = "bounded exhaustive exploration: every pack of the type catalogue and every seed program (C and C++) compiled by the same compiler in every debug-info configuration {DWARF 4, DWARF 5} x {column info on/off} x {type units on/off for C++}; all pairs of configurations compared with abidiff; oracle = identical verdict (exit 0, empty report) in both directions"
RULE = ("sources: packs of 40 catalogue nodes (C) and the seed programs (C: basic nested recursive two_tu symbols big; C++: cxx cxx_anon + the C++ feature programs below; + two C programs with bit-fields at bit offsets 120 ... 560000, members at offsets around 127/255/32767/80000 and enumerators around the 1-/2-byte constant limits); compilers gcc and clang, never mixed inside a pair; configurations: "
        "-gdwarf-4, -gdwarf-5, each with/without -gno-column-info, and for C++ each with/without -fdebug-types-section. For every unordered pair of configurations of one source and compiler: abidiff A B and abidiff B A "
        "must exit 0 with an empty report. Non-trivial: every comparison (the binaries differ in their .debug_* sections by construction).")
TEXT = "All pairs of configurations for every source; quick uses every other pack."
NOTE = "Code-generation flags are identical inside a pair; only debug-info layout options differ."

CXX_EXTRA = {
    "cxx_methods": r'''
struct Point { int x, y; int norm() const { return x * x + y * y; } void move(int dx) { x += dx; } static int origin() { return 0; } };
class Shape { public: virtual ~Shape() {} virtual int area() const = 0; protected: int id; };
class Rect : public Shape { public: int area() const override { return w * h; } int w, h; };
int use(Point* p, const Rect& r) { p->move(1); return p->norm() + r.area() + Point::origin(); }
Shape* make_rect() { return new Rect(); }
''',
    "cxx_templates": r'''
template <typename T, int N> struct Arr { T v[N]; T at(int i) const { return v[i]; } };
template <typename T> T twice(T x) { return x + x; }
namespace n1 { namespace n2 { struct Deep { long l; Arr<char, 3> a; }; } }
int use_arr(const Arr<int, 4>& a, n1::n2::Deep* d) { return a.at(0) + (int)d->l + twice<int>(2); }
template int twice<int>(int);
''',
    "cxx_members": r'''
struct Inner { int Inner::* pm; int (Inner::* pmf)(int); int f(int x) { return x; } int m; };
enum class E : short { A, B };
union U { int i; float f; Inner* p; };
typedef int (*cb_t)(const Inner&, E);
int call(cb_t cb, Inner& in, U u) { return cb(in, E::A) + u.i; }
Inner g_inner;
''',
}


# C programs for the corners of the DWARF encodings: bit-fields whose bit offset needs 1-, 2- and 4-byte constant forms
# (DW_AT_data_bit_offset in DWARF 5 vs DW_AT_bit_offset + DW_AT_data_member_location before), large member offsets, large arrays
C_EXTRA = {
    "bitfield_offsets": r'''
struct B1 { char pad[15]; unsigned a:3; unsigned b:5; };                 /* bit offsets 120, 123 */
struct B2 { char pad[16]; unsigned a:3; unsigned b:7; int c:9; };        /* 128 .. */
struct B3 { char pad[31]; unsigned char a:1; unsigned char b:7; };       /* 248, 249 */
struct B4 { char pad[32]; unsigned a:1; long l:33; };                    /* 256 */
struct B5 { char pad[4095]; unsigned char a:2; unsigned char b:2; };     /* 32760 */
struct B6 { char pad[4096]; unsigned a:4; unsigned b:28; };              /* 32768 */
struct B7 { char pad[8191]; unsigned char a:3; };                        /* 65528 */
struct B8 { char pad[8192]; unsigned a:5; int b:20; };                   /* 65536 */
struct B9 { char pad[70000]; unsigned a:11; unsigned b:21; long tail; }; /* 560000 */
int f1(struct B1* p) { return p->a; } int f2(struct B2* p) { return p->c; } int f3(struct B3* p) { return p->b; }
int f4(struct B4* p) { return (int)p->l; } int f5(struct B5* p) { return p->b; } int f6(struct B6* p) { return p->b; }
int f7(struct B7* p) { return p->a; } int f8(struct B8* p) { return p->b; } int f9(struct B9* p) { return p->b; }
''',
    "large_offsets": r'''
struct L1 { char pad[127]; char at127; char at128; short s; };
struct L2 { char pad[255]; char at255; int at256; };
struct L3 { char pad[32767]; char at32767; long at32768; };
struct L4 { int big[20000]; char at80000; double d; };
enum E1 { E_NEG = -129, E_M1 = -1, E_127 = 127, E_128 = 128, E_255 = 255, E_256 = 256, E_BIG = 70000 };
int g1(struct L1* p) { return p->at128; } int g2(struct L2* p) { return p->at256; } long g3(struct L3* p) { return p->at32768; }
double g4(struct L4* p) { return p->d; } enum E1 g5(enum E1 e) { return e; }
''',
}


def prepare(ctx):
    toolrun.tool("plain", "abidiff")


def _configs(lang):
    out = []
    for dw in (4, 5):
        for col in (True, False):
            for tu in ((False, True) if lang == "c++" else (False,)):
                fl = ["-g", "-gdwarf-%d" % dw] + ([] if col else ["-gno-column-info"]) + (["-fdebug-types-section"] if tu else [])
                out.append(("dw%d%s%s" % (dw, "" if col else "-nocol", "-tu" if tu else ""), fl))
    return out


def stages(ctx):
    specs = pc.all_specs(ctx.quick)
    packs = pc.chunks(specs, 40)
    if ctx.quick:
        packs = packs[::2]
    el = []
    for pi, p in enumerate(packs):
        for cc in ("gcc", "clang"):
            el.append({"kind": "pack", "pack": p, "cc": cc, "id": "pack%d" % pi})
    for n in seeds.all_names():
        for cc in ("gcc", "clang"):
            if n == "symbols" and cc == "clang":
                continue
            el.append({"kind": "seed", "seed": n, "cc": cc, "id": "seed-" + n})
    for n in CXX_EXTRA:
        for cc in ("gcc", "clang"):
            el.append({"kind": "cxx", "name": n, "cc": cc, "id": n})
    for n in C_EXTRA:
        for cc in ("gcc", "clang"):
            el.append({"kind": "cextra", "name": n, "cc": cc, "id": n})
    return [("sources-x-compilers-x-config-pairs", el)]


def _build(e, flags):
    if e["kind"] == "pack":
        return pc.build_nodes(e["pack"], cc=e["cc"], flags=flags)[0]
    if e["kind"] == "seed":
        s = seeds.SEEDS[e["seed"]]
        fl = list(flags) + (["-std=c++11"] if s["lang"] == "c++" else [])
        return cbuild.compile_units([(f, src, fl) for f, src in s["units"]], link_flags=list(s["link"]) + ["-Wl,-soname,libx.so"], out_name="libx.so", cc=e["cc"], extra_files=s.get("extra"), tag="c43")
    if e["kind"] == "cextra":
        return cbuild.compile_units([("x.c", C_EXTRA[e["name"]], list(flags))], link_flags=["-Wl,-soname,libx.so"], out_name="libx.so", cc=e["cc"], tag="c43")
    return cbuild.compile_units([("x.cc", CXX_EXTRA[e["name"]], list(flags) + ["-std=c++11"])], link_flags=["-Wl,-soname,libx.so"], out_name="libx.so", cc=e["cc"], tag="c43")


def evaluate(ctx, e):
    lang = "c"
    if e["kind"] == "cxx" or (e["kind"] == "seed" and seeds.SEEDS[e["seed"]]["lang"] == "c++"):
        lang = "c++"
    bins = [(name, _build(e, fl)) for name, fl in _configs(lang)]
    fails, outs = [], {}
    n = 0
    for (na, a), (nb, b) in itertools.combinations(bins, 2):
        for x, y, d in ((a, b, "%s->%s" % (na, nb)), (b, a, "%s->%s" % (nb, na))):
            rc, out, err = pc.abidiff(ctx, x, y)
            n += 1
            if not isinstance(rc, int) or rc < 0:
                o, site, _ = toolrun.classify(rc, err)
                fails.append({"sig": "C43 abidiff %s %s" % (o, site), "what": "%s %s %s: %s" % (e["id"], e["cc"], d, err[-300:])})
                k = "crash"
            elif rc != 0 or out.strip():
                diff = sorted(set(na.split("-")) ^ set(nb.split("-")))
                fails.append({"sig": "C43 abidiff verdict-differs %s %s %s" % (lang, e["cc"], "+".join(diff)), "what": "%s %s %s: exit %s\n%s" % (e["id"], e["cc"], d, rc, out[:500])})
                k = "differs"
            else:
                k = "identical"
            outs[k] = outs.get(k, 0) + 1
    return {"evaluations": n, "nontrivial_count": n, "outcomes": outs, "failures": fails[:12], "sample": {"id": e["id"], "cc": e["cc"], "configs": [b[0] for b in bins]}}
