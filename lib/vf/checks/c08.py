"""C08 — exit status obeys the documented bit-field and agrees with the report."""
import itertools
import os
import re
import shutil

from .. import core, pscommon as pc, report_parser, seeds, toolrun

LEVEL = "exploration"
ENGINE = "progspace"
TECHNIQUE = "bounded exhaustive exploration: (a) every mixed pack x direction x report-affecting option x suppression re-judged for bit-field and report agreement; (b) the command-line space of abidiff / abicompat / abipkgdiff: every option alone and every pair from a core, with correct, missing and non-existent operands; (c) translation-unit documents"
RULE = ("(a) packs of C10 plus six single-unit pairs whose only net change is one removed / added / changed function or variable, forward/backward, options in {none, --leaf-changes-only, --stat, --deleted-fns, --changed-fns, --added-fns, --deleted-vars, --no-added-syms, --harmless, --redundant}, with no / partial / total suppression; "
        "(b) for each tool: every option alone and every pair of a 10-option core, each with {two good operands, one operand missing, a non-existent file, an unknown option, no operand, three operands}; "
        "(c) abi-instr (translation unit) documents sliced out of corpus documents, equal and different. Oracle: status in 0..15; bit 8 implies bit 4; bit 2 implies bit 1; no death by signal; a non-existent input sets bit 1; "
        "when bit 1 is clear: bit 4 is set exactly when the summary (or, for abipkgdiff, the output) lists at least one non-filtered change. Non-trivial: every run.")
TEXT = "Complete crosses within the stated option cores; the report is parsed independently and unknown report lines fail loudly."
NOTE = "abicompat and abipkgdiff reports are judged by presence of output, not parsed in detail (C29 / C30 do that)."
REPORT_OPTS = [[], ["--leaf-changes-only"], ["--stat"], ["--deleted-fns"], ["--changed-fns"], ["--added-fns"], ["--deleted-vars"], ["--no-added-syms"], ["--harmless"], ["--redundant"]]
SUP = {"none": None, "third": "[suppress_function]\n  name_regexp = ^f_[0-9]*[0-2]$\n", "all": "[suppress_function]\n  name_regexp = .*\n[suppress_variable]\n  name_regexp = .*\n"}
ABIDIFF_FLAGS = ["--stat", "--symtabs", "--drop-private-types", "--no-default-suppression", "--no-architecture", "--no-corpus-path", "--ignore-soname", "--fail-no-debug-info",
                 "--leaf-changes-only", "--deleted-fns", "--changed-fns", "--added-fns", "--deleted-vars", "--changed-vars", "--added-vars", "--non-reachable-types", "--no-added-syms",
                 "--no-linkage-name", "--no-unreferenced-symbols", "--no-show-locs", "--show-bytes", "--show-bits", "--show-hex", "--show-dec", "--no-show-relative-offset-changes",
                 "--harmless", "--no-harmful", "--redundant", "--no-redundant", "--impacted-interfaces", "--dump-diff-tree", "--stats", "--verbose", "--help", "--version"]
ABIDIFF_ARG = ["--debug-info-dir1", "--debug-info-dir2", "--headers-dir1", "--header-file1", "--headers-dir2", "--header-file2", "--kmi-whitelist", "--suppressions", "--drop", "--drop-fn", "--drop-var", "--keep", "--keep-fn", "--keep-var"]
ABICOMPAT_FLAGS = ["--list-undefined-symbols", "--show-base-names", "--redundant", "--no-redundant", "--no-show-locs", "--ignore-soname", "--fail-no-debug-info", "--weak-mode", "--help", "--version"]
ABIPKGDIFF_FLAGS = ["--drop-private-types", "--no-default-suppression", "--keep-tmp-files", "--dso-only", "--private-dso", "--leaf-changes-only", "--impacted-interfaces", "--non-reachable-types", "--full-impact",
                    "--no-linkage-name", "--redundant", "--harmless", "--no-show-locs", "--show-bytes", "--show-hex", "--no-added-syms", "--no-unreferenced-symbols", "--no-added-binaries", "--fail-no-dbg",
                    "--verbose", "--no-abignore", "--no-parallel", "--show-identical-binaries", "--self-check", "--help", "--version"]
_env = {}


def prepare(ctx):
    toolrun.tool("plain", "abidiff")
    l1, l2 = seeds.build("basic"), seeds.build("basic", True)
    d = os.path.join(ctx.scratch, "cmd")
    os.makedirs(os.path.join(d, "p1"))
    os.makedirs(os.path.join(d, "p2"))
    shutil.copy(l1, os.path.join(d, "p1", "libbasic.so"))
    shutil.copy(l2, os.path.join(d, "p2", "libbasic.so"))
    from .. import cbuild
    app = cbuild.compile_units([("app.c", "extern int g_counter; extern void set_name(const char*);\nint main(void){ set_name(\"x\"); return g_counter; }\n", ["-g"])],
                               link_flags=["-L" + os.path.dirname(l1), "-lbasic"], out_name="app", kind="exe")
    _env.update(l1=l1, l2=l2, d=d, app=app)
    # translation-unit documents
    rc, out, err = toolrun.run_tool(ctx, "plain", "abidw", ["--no-corpus-path", l1], spawn=True)
    rc2, out2, err2 = toolrun.run_tool(ctx, "plain", "abidw", ["--no-corpus-path", l2], spawn=True)
    for name, doc in (("tu1.abi", out), ("tu2.abi", out2)):
        m = re.search(rb"<abi-instr .*?</abi-instr>\n", doc, re.S)
        tu = m.group(0).replace(b"<abi-instr ", b"<abi-instr version='2.1' ", 1)
        with open(os.path.join(d, name), "wb") as f:
            f.write(tu)
    with open(os.path.join(d, "s.suppr"), "w") as f:
        f.write("[suppress_function]\n  name = nothing_zz\n")


def stages(ctx):
    packs = pc.mixed_packs(ctx.quick)
    a = [{"kind": "pack", "pack": p} for p in (packs[::2] if ctx.quick else packs)]
    # pairs with ONE kind of net change only (comparing them backwards turns removals into additions): in a mixed pack any
    # other change sets the change bit and masks a wrong contribution of one kind
    for spec, label in (({"k": "struct", "m": ["i"], "p": "var"}, "remove-variable"), ({"k": "struct", "m": ["i"], "p": "ptr"}, "remove-function"),
                        ({"k": "struct", "m": ["i"], "p": "var"}, "insert-member-i@0"), ({"k": "struct", "m": ["i"], "p": "ptr"}, "insert-member-i@0"),
                        ({"k": "union", "m": ["i", "d"], "p": "var"}, "remove-variable"), ({"sp": 0}, "remove-function")):
        a.append({"kind": "pack", "pack": [[spec, label]]})
    b = []
    core_flags = ABIDIFF_FLAGS[:10]
    for f in ABIDIFF_FLAGS:
        b.append({"kind": "cmd", "tool": "abidiff", "opts": [f]})
    for f in ABIDIFF_ARG:
        b.append({"kind": "cmd", "tool": "abidiff", "opts": [f], "needs_arg": True})
    for x, y in itertools.combinations(core_flags, 2):
        b.append({"kind": "cmd", "tool": "abidiff", "opts": [x, y]})
    for f in ABICOMPAT_FLAGS:
        b.append({"kind": "cmd", "tool": "abicompat", "opts": [f]})
    for x, y in itertools.combinations(ABICOMPAT_FLAGS[:6], 2):
        b.append({"kind": "cmd", "tool": "abicompat", "opts": [x, y]})
    for f in ABIPKGDIFF_FLAGS:
        b.append({"kind": "cmd", "tool": "abipkgdiff", "opts": [f]})
    for x, y in itertools.combinations(ABIPKGDIFF_FLAGS[:6], 2):
        b.append({"kind": "cmd", "tool": "abipkgdiff", "opts": [x, y]})
    b.append({"kind": "tu"})
    return [("packs+command-lines+tu-documents", a + b)]


def _bits(rc):
    p = []
    if not isinstance(rc, int) or rc < 0 or rc > 15:
        return ["status %s is not a combination of the documented bits" % rc]
    if (rc & 8) and not (rc & 4):
        p.append("incompatible-change bit without the change bit (status %d)" % rc)
    if (rc & 2) and not (rc & 1):
        p.append("usage-error bit without the error bit (status %d)" % rc)
    return p


def _has_change(out):
    rep = report_parser.parse(out)
    tot = 0
    for k, v in rep.summary.items():
        for f in ("removed", "changed", "added"):
            tot += v.get(f, 0)
    return tot > 0, rep


def evaluate(ctx, e):
    fails, outs = [], {}
    n = 0
    if e["kind"] == "pack":
        v1, v2, info = pc.build_pair(e["pack"], "breaking")
        d = ctx.tmpdir("c08")
        for direction, (a, b) in (("fwd", (v1, v2)), ("bwd", (v2, v1)), ("self", (v1, v1))):
            for sname, st in SUP.items():
                so = []
                if st:
                    sp = os.path.join(d, sname + ".suppr")
                    with open(sp, "w") as f:
                        f.write(st)
                    so = ["--suppressions", sp]
                for o in REPORT_OPTS:
                    rc, out, err = pc.abidiff(ctx, a, b, so + o)
                    n += 1
                    cls = "%s-%s-%s" % (direction, sname, "+".join(o) or "default")
                    for p in _bits(rc):
                        fails.append({"sig": "C08 abidiff bitfield %s" % cls, "what": p})
                    if isinstance(rc, int) and 0 <= rc <= 15 and not (rc & 1):
                        try:
                            ch, rep = _has_change(out)
                        except report_parser.FormatError as ex:
                            raise core.HarnessError(str(ex))
                        if rep.summary and bool(rc & 4) != ch:
                            fails.append({"sig": "C08 abidiff mismatch:change-bit-vs-summary %s" % cls,
                                          "what": "exit status %d but the summary %s a non-filtered change: %s" % (rc, "lists" if ch else "lists no", out[:300])})
                    outs["status-%s" % rc] = outs.get("status-%s" % rc, 0) + 1
        return {"evaluations": n, "nontrivial_count": n, "outcomes": outs, "failures": fails, "sample": {"pack_units": len(info)}}
    if e["kind"] == "tu":
        d = _env["d"]
        for a, b, differ in (("tu1.abi", "tu1.abi", False), ("tu1.abi", "tu2.abi", True), ("tu2.abi", "tu1.abi", True)):
            rc, out, err = pc.abidiff(ctx, os.path.join(d, a), os.path.join(d, b))
            n += 1
            for p in _bits(rc):
                fails.append({"sig": "C08 abidiff bitfield translation-unit-documents", "what": p})
            reported = bool(out.strip())
            if isinstance(rc, int) and rc >= 0 and not (rc & 1) and reported != bool(rc & 4):
                fails.append({"sig": "C08 abidiff mismatch:change-bit-vs-report translation-unit-documents",
                              "what": "abidiff %s %s: exit status %s but %s: %s" % (a, b, rc, "a report is printed" if reported else "nothing is printed", out[:300])})
            outs["status-%s" % rc] = outs.get("status-%s" % rc, 0) + 1
        return {"evaluations": n, "nontrivial_count": n, "outcomes": outs, "failures": fails}
    # command lines
    tool = e["tool"]
    d = _env["d"]
    good = {"abidiff": [_env["l1"], _env["l2"]], "abicompat": [_env["app"], _env["l1"], _env["l2"]], "abipkgdiff": [os.path.join(d, "p1"), os.path.join(d, "p2")]}[tool]
    argval = {"--suppressions": os.path.join(d, "s.suppr"), "--kmi-whitelist": os.path.join(d, "s.suppr"), "--header-file1": os.path.join(d, "s.suppr"), "--header-file2": os.path.join(d, "s.suppr")}
    opts = []
    for o in e["opts"]:
        opts.append(o)
        if e.get("needs_arg"):
            opts.append(argval.get(o, d if "dir" in o else "nothing_zz"))
    variants = [("good", opts + good), ("operand-missing", opts + good[:-1]), ("nonexistent-file", opts + good[:-1] + [os.path.join(d, "missing.so")]),
                ("unknown-option", opts + ["--no-such-option-zz"] + good), ("no-operand", opts), ("extra-operand", opts + good + [good[-1]])]
    if e.get("needs_arg"):
        variants.append(("option-argument-missing", good + [e["opts"][0]]))
    for vname, args in variants:
        rc, out, err = toolrun.run_tool(ctx, "plain", tool, args, timeout=60, fast=False)
        n += 1
        cls = "%s %s" % ("+".join(e["opts"]), vname)
        for p in _bits(rc):
            fails.append({"sig": "C08 %s bitfield %s" % (tool, cls), "what": p + " for %s %s" % (tool, " ".join(args)[-200:])})
        unused_last = tool == "abicompat" and any(x in ("--list-undefined-symbols", "--weak-mode") for x in e["opts"])   # the last operand is not read at all then
        if vname == "nonexistent-file" and not unused_last and isinstance(rc, int) and rc >= 0 and not (rc & 1) and not any(x in ("--help", "--version") for x in e["opts"]):
            fails.append({"sig": "C08 %s exit%s nonexistent-file %s" % (tool, rc, "+".join(e["opts"])), "what": "%s with a non-existent input exits %s" % (tool, rc)})
        outs["%s-status-%s" % (vname, rc)] = outs.get("%s-status-%s" % (vname, rc), 0) + 1
    return {"evaluations": n, "nontrivial_count": n, "outcomes": outs, "failures": fails, "sample": {"tool": tool, "options": e["opts"]}}
