"""C01 — comparing any binary with itself reports no ABI change."""
import os

from .. import core, pscommon as pc

LEVEL = "exploration"
ENGINE = "progspace"
TECHNIQUE = "bounded exhaustive exploration: every node binary of the program space x input form (ELF/ELF, ABIXML/ABIXML, ELF/ABIXML, ABIXML/ELF) x reporting option set (complete cross)"
RULE = ("node binaries = packs of all units of the node set (C05) and the seed programs (C, C++ with bases/virtuals/templates, aliases, versioned symbols, two TUs with same-named structs), "
        "compiled by gcc and clang (DWARF default; 4 and 5 in the thorough tier) and without -g; each is compared with itself in four input forms under the option sets "
        "{default, --leaf-changes-only, --harmless, --redundant, --non-reachable-types, --no-show-locs, --stat}. Oracle: exit status 0 and empty stdout. Non-trivial: every (binary, form, options) run.")
TEXT = "Complete cross of node binaries, input forms and option sets; the oracle is exact (nothing may be printed)."
NOTE = "Corpus groups (abidw --linux-tree output) are not generated here: the kernel-tree path needs a vmlinux + modules layout; covered forms are ELF and ABIXML corpora."
OPTS = [[], ["--leaf-changes-only"], ["--harmless"], ["--redundant"], ["--non-reachable-types"], ["--no-show-locs"], ["--stat"]]


def prepare(ctx):
    from .. import toolrun
    toolrun.tool("plain", "abidiff")


def stages(ctx):
    return [("all-node-binaries", [{"bin": b} for b in pc.node_binary_specs(ctx.quick)])]


def evaluate(ctx, e):
    b = e["bin"]
    path = pc.node_binary(b)
    d = ctx.tmpdir("c01")
    abi = os.path.join(d, "x.abi")
    rc, out, err = pc.run(ctx, "abidw", [path])
    if rc != 0:
        raise core.HarnessError("abidw failed on %s: rc=%s %s" % (b["id"], rc, err[-200:]))
    with open(abi, "wb") as f:
        f.write(out)
    fails, outs = [], {}
    n = 0
    forms = [("elf-elf", path, path), ("abixml-abixml", abi, abi), ("elf-abixml", path, abi), ("abixml-elf", abi, path)]
    for fname, a, bb in forms:
        for o in OPTS:
            rc, out, err = pc.abidiff(ctx, a, bb, o)
            n += 1
            ok = rc == 0 and not out.strip()
            outs["silent" if ok else "reported"] = outs.get("silent" if ok else "reported", 0) + 1
            if not ok:
                kind = "seed-" + b["seed"] if "seed" in b else "pack"
                fails.append({"sig": "C01 abidiff exit%s %s %s %s" % (rc, fname, "+".join(o) or "default", kind + ("-nodebug" if b.get("nodebug") else "")),
                              "what": "self comparison (%s) of %s with options %s: exit %s, output: %s" % (fname, b["id"], o, rc, out[:400])})
    return {"evaluations": n, "nontrivial_count": n, "outcomes": outs, "failures": fails, "sample": {"binary": b["id"], "forms": [f[0] for f in forms], "options": OPTS}}
