"""C01 — comparing any binary with itself reports no ABI change."""
import os

from .. import core, pscommon as pc

LEVEL = "exploration"
ENGINE = "progspace"
TECHNIQUE = "bounded exhaustive exploration: every node binary of the program space x input form (ELF/ELF, ABIXML/ABIXML, ELF/ABIXML, ABIXML/ELF) x reporting option set (complete cross)"
RULE = ("node binaries = packs of all units of the node set (C05) and the seed programs (C, C++ with bases/virtuals/templates, aliases, versioned symbols, two TUs with same-named structs) plus libraries of 2-3 translation units that each define `enum E` differently (6 definitions with duplicated enumerator values, plus the pair {a=0,b=1,c=1} / {a=0}; every ordered pair, and every ordered triple in the thorough tier), "
        "compiled by gcc and clang (DWARF default; 4 and 5 in the thorough tier) and without -g; each is compared with itself in four input forms under the option sets "
        "{default, --leaf-changes-only, --harmless, --redundant, --non-reachable-types, --no-show-locs, --stat}. Oracle: exit status 0 and empty stdout. Non-trivial: every (binary, form, options) run.")
TEXT = "Complete cross of node binaries, input forms and option sets; the oracle is exact (nothing may be printed)."
NOTE = "Corpus groups (abidw --linux-tree output) are not generated here: the kernel-tree path needs a vmlinux + modules layout; covered forms are ELF and ABIXML corpora."
OPTS = [[], ["--leaf-changes-only"], ["--harmless"], ["--redundant"], ["--non-reachable-types"], ["--no-show-locs"], ["--stat"]]


def prepare(ctx):
    from .. import toolrun
    toolrun.tool("plain", "abidiff")


# same-named enums defined differently in several translation units, with duplicated enumerator values (enum equality tolerates
# enumerators whose value is redundant; canonicalisation of the second copy of the binary must still land on the same types)
ENUM_DEFS = {"a1": "a = 1", "a1b1": "a = 1, b = 1", "a2b2": "a = 2, b = 2", "a0b1c1": "a = 0, b = 1, c = 1", "a1b2": "a = 1, b = 2", "a1b1c2": "a = 1, b = 1, c = 2",
             "a0": "a = 0"}     # a0 is only paired with a0b1c1 (the one asymmetric case of the current enum equality, see known findings)


def stages(ctx):
    import itertools
    keys = sorted(k for k in ENUM_DEFS if k != "a0")
    multi = [{"enums": list(c)} for r in ((2, 3) if not ctx.quick else (2,)) for c in itertools.permutations(keys, r)]
    if ctx.quick:
        multi += [{"enums": list(c)} for c in itertools.permutations(["a1", "a1b1", "a2b2"], 3)]
    multi += [{"enums": ["a0b1c1", "a0"]}, {"enums": ["a0", "a0b1c1"]}]
    return [("all-node-binaries", [{"bin": b} for b in pc.node_binary_specs(ctx.quick)] + multi)]


def evaluate(ctx, e):
    if "enums" in e:
        from .. import cbuild
        units = [("e%d.c" % i, "enum E { %s };\nint g%d(enum E x) { return (int)x; }\n" % (ENUM_DEFS[k], i), ["-g"]) for i, k in enumerate(e["enums"])]
        path = cbuild.compile_units(units, link_flags=["-Wl,-soname,libenum.so"], out_name="libenum.so", tag="c01e")
        b = {"id": "same-named-enums-" + "+".join(e["enums"]), "seed": "enums-" + "+".join(e["enums"])}
    else:
        b = e["bin"]
        path = pc.node_binary(b)
    d = ctx.tmpdir("c01")
    abi = os.path.join(d, "x.abi")
    rc, out, err = pc.run(ctx, "abidw", [path])
    if rc != 0:
        raise core.HarnessError("abidw failed on %s: rc=%s %s" % (b["id"], rc, err[-200:]))
    with open(abi, "wb") as f:
        f.write(out)
    fails, outs = [], {}
    n = 0
    forms = [("elf-elf", path, path), ("abixml-abixml", abi, abi), ("elf-abixml", path, abi), ("abixml-elf", abi, path)]
    for fname, a, bb in forms:
        for o in OPTS:
            rc, out, err = pc.abidiff(ctx, a, bb, o)
            n += 1
            ok = rc == 0 and not out.strip()
            outs["silent" if ok else "reported"] = outs.get("silent" if ok else "reported", 0) + 1
            if not ok:
                kind = "seed-" + b["seed"] if "seed" in b else "pack"
                fails.append({"sig": "C01 abidiff exit%s %s %s %s" % (rc, fname, "+".join(o) or "default", kind + ("-nodebug" if b.get("nodebug") else "")),
                              "what": "self comparison (%s) of %s with options %s: exit %s, output: %s" % (fname, b["id"], o, rc, out[:400])})
    return {"evaluations": n, "nontrivial_count": n, "outcomes": outs, "failures": fails, "sample": {"binary": b["id"], "forms": [f[0] for f in forms], "options": OPTS}}
