"""C28 — kernel binaries expose exactly their ksymtab-exported interface."""
import itertools
import xml.etree.ElementTree as ET

from .. import cbuild, core, pscommon as pc, toolrun

LEVEL = "exploration"
ENGINE = "progspace"
TECHNIQUE = "bounded exhaustive exploration: every subset of exported symbols of a synthetic kernel-like object (2 functions + 2 variables + 1 alias), relocatable and linked, with and without kernel mode"
RULE = ("objects carrying a __ksymtab_strings section and one __ksymtab_<sym> marker per exported symbol, for every subset of {f1, f2, v1, v2} (16) x {relocatable .o (module-like), statically linked ET_EXEC without .dynsym (vmlinux-like)}; oracle: the functions and variables abidw records (declarations and symbol tables) are exactly the exported subset; with "
        "--no-linux-kernel-mode they are all public defined symbols. Non-trivial: every (subset, output kind).")
TEXT = "Complete subset lattice of a 4-symbol universe."
NOTE = "Synthetic objects imitate the section/symbol naming of Linux modules; CRC (__crc_) markers and namespaces are not generated."
SYMS = ["f1", "f2", "v1", "v2"]


def prepare(ctx):
    toolrun.tool("plain", "abidw")


def _source(subset):
    s = ["int f1(int x) { return x; }", "int f2(int x) { return x + 1; }", "int v1 = 1;", "long v2 = 2;", "int f_unexported(void) { return 0; }",
         "struct kernel_symbol { unsigned long value; const char* name; };",
         "static const char __kstrtab_dummy[] __attribute__((section(\"__ksymtab_strings\"), used)) = \"dummy\";"]
    for n in subset:
        s.append("static const char __kstrtab_%s[] __attribute__((section(\"__ksymtab_strings\"), used)) = \"%s\";" % (n, n))
        s.append("static const struct kernel_symbol __ksymtab_%s __attribute__((section(\"___ksymtab+%s\"), used)) = { (unsigned long)&%s, __kstrtab_%s };" % (n, n, n, n))
    s.append("int main(void) { return 0; }")
    return "\n".join(s) + "\n"


def stages(ctx):
    el = []
    for r in range(len(SYMS) + 1):
        for sub in itertools.combinations(SYMS, r):
            for kind in ("reloc", "exec"):
                el.append({"subset": list(sub), "kind": kind})
    return [("all-subsets", el)]


def _sets(doc):
    root = ET.fromstring(doc)
    fsyms = set(e.attrib["name"] for e in (root.find("elf-function-symbols") or []))
    vsyms = set(e.attrib["name"] for e in (root.find("elf-variable-symbols") or []))
    fdecl = set(e.attrib["name"] for e in root.iter("function-decl") if e.attrib.get("elf-symbol-id"))
    vdecl = set(e.attrib["name"] for e in root.iter("var-decl") if e.attrib.get("elf-symbol-id"))
    return fsyms, vsyms, fdecl, vdecl


def evaluate(ctx, e):
    src = _source(e["subset"])
    kind = e["kind"]
    name = {"reloc": "k.o", "exec": "vmlinux"}[kind]
    # a vmlinux-like image: statically linked ET_EXEC with a .symtab and no .dynsym
    link = ["-nostdlib", "-static", "-no-pie", "-Wl,-e,main"] if kind == "exec" else []
    path = cbuild.compile_units([("k.c", src, ["-g", "-fno-pie"] if kind == "exec" else ["-g"])], out_name=name, kind="exe" if kind == "exec" else kind, link_flags=link, tag="c28")
    fails = []
    cls = "%s-%d-exported" % (kind, len(e["subset"]))
    exp_f = set(x for x in e["subset"] if x.startswith("f"))
    exp_v = set(x for x in e["subset"] if x.startswith("v"))
    rc, doc, err = pc.run(ctx, "abidw", [path])
    if rc != 0:
        if e["subset"]:
            fails.append({"sig": "C28 abidw exit%s kernel-mode %s" % (rc, cls), "what": "abidw fails on the kernel-like object exporting %s: %s" % (e["subset"], err[-200:])})
    else:
        fs, vs, fd, vd = _sets(doc)
        if fs != exp_f or vs != exp_v:
            fails.append({"sig": "C28 abidw mismatch:symbol-tables kernel-mode %s" % cls, "what": "ksymtab exports %s but abidw's symbol tables hold functions %s variables %s" % (e["subset"], sorted(fs), sorted(vs))})
        if fd != exp_f or vd != exp_v:
            fails.append({"sig": "C28 abidw mismatch:interface kernel-mode %s" % cls, "what": "ksymtab exports %s but abidw describes functions %s variables %s" % (e["subset"], sorted(fd), sorted(vd))})
    rc, doc, err = pc.run(ctx, "abidw", ["--no-linux-kernel-mode", path])
    if rc != 0:
        fails.append({"sig": "C28 abidw exit%s no-kernel-mode %s" % (rc, cls), "what": "abidw --no-linux-kernel-mode fails: %s" % err[-200:]})
    else:
        fs, vs, fd, vd = _sets(doc)
        allf, allv = {"f1", "f2", "f_unexported", "main"}, {"v1", "v2"}
        if not (allf <= fs | {"main"} and fs - {"main", "_start", "_init", "_fini"} <= allf) or not (allv <= vs):
            fails.append({"sig": "C28 abidw mismatch:symbol-tables no-kernel-mode %s" % cls, "what": "--no-linux-kernel-mode: functions %s variables %s, expected all public symbols" % (sorted(fs), sorted(vs))})
    return {"evaluations": 2, "nontrivial_count": 1, "outcomes": {"ok" if not fails else "bad": 1}, "failures": fails, "sample": {"subset": e["subset"], "kind": kind}}
