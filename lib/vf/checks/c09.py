"""C09 — an unreadable input is never reported as 'no change'."""
import os

from .. import core, seeds, toolrun, xmlmut, cbuild

LEVEL = "fault_enumeration"
ENGINE = "xmlmut"
TECHNIQUE = "exhaustive enumeration of crash points of an emitted ABIXML document (every token boundary / every byte prefix), of single-byte corruptions rejected by an independent XML parser, and of a catalogue of non-ABI inputs, in every argument position"
RULE = ("documents = abidw output of the seed programs (C and C++; 4-14 KB). prefix: the document truncated at every token boundary (quick) / every byte (thorough); "
        "byte: one byte deleted or replaced by < & ' NUL 0xFF at every (strided in quick) offset; only inputs that expat rejects are judged. Each unreadable input U is given to "
        "abidiff as (full, U), (U, full), (ELF, U), (U, ELF) and to abicompat as lib1 / lib2; plus empty file, 1-byte file, text file, ELF header only, truncated ELF, garbage with ELF magic, "
        "missing path, directory. Oracle: exit status has the error bit (1) and the process is not killed by a signal. Non-trivial: expat (or construction) says the input is unreadable.")
TEXT = ("Every crash point that an interrupted abidw could leave behind is enumerated for each seed document and fed to the comparison tools in every argument position; "
        "well-formedness is judged by expat, independently of libxml2/libabigail.")
NOTE = "Only single truncation / single-byte corruption of documents up to 14 KB; inputs that are still well-formed XML but semantically broken belong to C33. Crashes here are reported under C33, not C09."
ASSUMPTIONS = ["expat's verdict on well-formedness", "a proper prefix of an ELF file shorter than its section header table cannot be loaded"]
_docs = {}
_app = None
V = "plain"


def prepare(ctx):
    global _app
    toolrun.tool(V, "abidiff")
    names = ["basic", "symbols", "cxx_anon"] if ctx.quick else seeds.all_names()
    for n in names:
        if n == "big":
            continue
        lib = seeds.build(n)
        rc, out, err = toolrun.run_tool(ctx, V, "abidw", ["--no-corpus-path", lib], spawn=True)
        if rc != 0:
            raise core.HarnessError("abidw failed on %s" % n)
        p = os.path.join(ctx.scratch, n + ".abi")
        with open(p, "wb") as f:
            f.write(out)
        _docs[n] = (lib, p, out)
    # a corpus group document: two corpora wrapped in an abi-corpus-group (ids of the second one renamed)
    import re
    if "basic" in _docs and "symbols" in _docs:
        a, b = _docs["basic"][2], _docs["symbols"][2]
        b = re.sub(rb"type-id-(\d+)", rb"type-id-g\1", b)
        g = b"<abi-corpus-group version='2.1'>\n" + a.replace(b"<abi-corpus ", b"<abi-corpus path='a.so' ", 1) + b.replace(b"<abi-corpus ", b"<abi-corpus path='b.so' ", 1) + b"</abi-corpus-group>\n"
        p = os.path.join(ctx.scratch, "group.abi")
        with open(p, "wb") as f:
            f.write(g)
        rc, out, err = toolrun.run_tool(ctx, V, "abidiff", [p, p], spawn=True)
        if rc != 0:
            raise core.HarnessError("the generated corpus-group document is not accepted: rc=%s %s" % (rc, err[-300:]))
        _docs["group"] = (None, p, g)
    lib = seeds.build("basic")
    _app = cbuild.compile_units([("app.c", "struct point; extern int g_counter; extern void set_name(const char*);\nint main(void){ set_name(\"x\"); return g_counter; }\n", ["-g"])],
                                link_flags=["-L" + os.path.dirname(lib), "-lbasic"], out_name="app", kind="exe")


def _chunks(lst, n):
    return [lst[i:i + n] for i in range(0, len(lst), n)]


def stages(ctx):
    st1 = [{"kind": "misc", "doc": d} for d in _docs]
    for d, (lib, p, data) in _docs.items():
        pos = xmlmut.token_boundaries(data)
        st1 += [{"kind": "prefix", "doc": d, "pos": c} for c in _chunks(pos, 60)]
        st1 += [{"kind": "byte", "doc": d, "stride": 53, "offset": o} for o in range(0, 53, 13)]
    st = [("token-boundaries+strided-bytes", st1)]
    if not ctx.quick:
        st2 = []
        for d, (lib, p, data) in _docs.items():
            st2 += [{"kind": "prefix", "doc": d, "pos": c} for c in _chunks(list(range(1, len(data))), 200)]
        st3 = []
        for d in ("basic", "symbols"):
            st3 += [{"kind": "byte", "doc": d, "stride": 16, "offset": o} for o in range(16)]
        st += [("every-byte-prefix", st2), ("every-byte-corruption(2 docs)", st3)]
    return st


def _class_of(doc, pos):
    data = _docs[doc][2]
    roots, allel = xmlmut.parse(data)
    root = roots[0]
    if pos < root.open_end:
        return "within-root-start-tag"
    for c in root.children:
        if c.start <= pos < c.end:
            return "inside-" + c.name
        if pos < c.start:
            return "between-sections"
    return "after-last-section"


def _judge(ctx, doc, upath, cls, what, fails, outs, abicompat=True):
    lib, full, data = _docs[doc]
    runs = [("abidiff", [full, upath], "arg2-vs-abixml"), ("abidiff", [upath, full], "arg1-vs-abixml")]
    if lib:
        runs += [("abidiff", [lib, upath], "arg2-vs-elf"), ("abidiff", [upath, lib], "arg1-vs-elf")]
    else:
        runs += [("abidiff", [upath, upath], "both-args")]
    if abicompat and doc == "basic":
        runs += [("abicompat", [_app, upath, lib], "lib1"), ("abicompat", [_app, lib, upath], "lib2")]
    n = 0
    for tool, args, posn in runs:
        rc, out, err = toolrun.run_tool(ctx, V, tool, args, timeout=30, fast=True)
        n += 1
        if isinstance(rc, int) and rc >= 0 and (rc & 1):
            outs["error-reported"] = outs.get("error-reported", 0) + 1
            continue
        if rc == "timeout" or (isinstance(rc, int) and rc < 0):
            outs["crash-or-hang(C33)"] = outs.get("crash-or-hang(C33)", 0) + 1
            continue          # memory safety / aborts are C33's business
        outs["exit%s" % rc] = outs.get("exit%s" % rc, 0) + 1
        fails.append({"sig": "C09 %s exit%s %s %s" % (tool, rc, posn, cls),
                      "what": "%s %s exited %s (no error bit) although the input is unreadable: %s" % (tool, posn, rc, what)})
    return n


def evaluate(ctx, e):
    lib, full, data = _docs[e["doc"]]
    d = ctx.tmpdir("u")
    up = os.path.join(d, "u.abi")
    fails, outs = [], {}
    n = nt = 0
    if e["kind"] == "prefix":
        for pos in e["pos"]:
            u = data[:pos]
            if xmlmut.well_formed(u):
                outs["still-well-formed"] = outs.get("still-well-formed", 0) + 1
                continue
            with open(up, "wb") as f:
                f.write(u)
            nt += 1
            f0 = len(fails)
            n += _judge(ctx, e["doc"], up, ("group-" if e["doc"] == "group" else "") + "truncated-" + _class_of(e["doc"], pos), "prefix of %d/%d bytes of %s.abi" % (pos, len(data), e["doc"]), fails, outs)
            for fl in fails[f0:]:
                fl["element"] = {"kind": "prefix", "doc": e["doc"], "pos": [pos]}
    elif e["kind"] == "byte":
        for name, pos, u in xmlmut.byte_mutations(data, e["stride"], e["offset"]):
            if xmlmut.well_formed(u):
                outs["still-well-formed"] = outs.get("still-well-formed", 0) + 1
                continue
            with open(up, "wb") as f:
                f.write(u)
            nt += 1
            f0 = len(fails)
            n += _judge(ctx, e["doc"], up, name + "-" + _class_of(e["doc"], pos), "%s at offset %d of %s.abi" % (name, pos, e["doc"]), fails, outs, abicompat=False)
            for fl in fails[f0:]:
                fl["element"] = {"kind": "byte", "doc": e["doc"], "stride": len(data) + 1, "offset": pos}
    else:
        elf = open(lib or _docs["basic"][0], "rb").read()
        cases = {"trailing-garbage": data + b"garbage<", "mismatched-end-tag": data.replace(b"</abi-instr>", b"</abi-corpus>", 1),"empty-file": b"", "one-byte-file": b"<", "text-file": b"root:x:0:0:root:/root:/bin/bash\n" * 20, "elf-header-only": elf[:64],
                 "elf-first-kilobyte": elf[:1024], "elf-magic-garbage": b"\x7fELF" + b"\x02\x01\x01" + b"A" * 300,
                 "xml-prolog-only": b"<?xml version='1.0'?>\n", "other-xml-root": b"<html><body/></html>\n"}
        for name, content in cases.items():
            with open(up, "wb") as f:
                f.write(content)
            nt += 1
            n += _judge(ctx, e["doc"], up, name, name, fails, outs)
        nt += 2
        n += _judge(ctx, e["doc"], os.path.join(d, "does-not-exist.abi"), "missing-path", "missing path", fails, outs)
        n += _judge(ctx, e["doc"], d, "directory", "a directory", fails, outs)
    return {"evaluations": n, "nontrivial_count": nt, "outcomes": outs, "failures": fails,
            "sample": {"kind": e["kind"], "doc": e["doc"], "first": (e.get("pos") or [e.get("offset")])[0]}}
