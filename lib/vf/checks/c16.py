"""C16 — recorded function and variable signatures match the source."""
import itertools

from .. import abixml, core, pscommon as pc, progspace as ps, toolrun

LEVEL = "exploration"
ENGINE = "progspace"
TECHNIQUE = "bounded exhaustive exploration: every function with <= 2 parameters and every variable whose types range over all access paths up to depth 2 (quick) / 3 (thorough) of the base alphabet and one aggregate; expected signature from the generator's own model"
RULE = ("type alphabet = closure of {int, char, long, double, struct S, enum E, typedef T} under {pointer, const, volatile, array[2] (variables only), pointer-to-function} up to the depth bound, plus void*, volatile void*, const void*, const volatile void* (all in one translation unit); "
        "functions f(T1), f(T1, T2) with every return type, variadic variants, and variables of every type; ~50 units per binary; gcc and clang (DWARF 4/5 in thorough). Oracle: the function-decl / var-decl of each unit in "
        "abidw's output, with type ids resolved through the emitted type graph into a canonical string, equals the spec's return type, parameter list, variadic flag / variable type "
        "(const void and const references may appear without the qualifier). Non-trivial: every unit.")
TEXT = "Exhaustive over the stated type closure; the expected signature is read off the specification that generated the source."
NOTE = "C only; C++ references are exercised by the seed programs in other checks."
BASE = {"int": "int", "char": "char", "long": "long int", "short": "short int", "double": "double", "float": "float", "unsigned": "unsigned int", "void": "void"}
PACK = 50


def prepare(ctx):
    toolrun.tool("plain", "abidw")


def expect(t):
    k = t[0]
    if k == "b":
        return BASE[t[1]]
    if k == "s":
        return "struct " + t[1]
    if k == "u":
        return "union " + t[1]
    if k == "e":
        return "enum " + t[1]
    if k == "t":
        return "typedef:" + t[1]
    if k == "p":
        return expect(t[1]) + "*"
    if k in "cv":
        q = "const" if k == "c" else "volatile"
        if t[1][0] in "pf":
            return expect(t[1]) + " " + q          # qualified pointer: postfix, as in abixml.type_string
        if t[1][0] in "cv" and t[1][1][0] in "pf":
            return expect(t[1]) + " " + q
        return q + " " + expect(t[1])
    if k == "a":
        return expect(t[1]) + "[%d]" % t[2]
    if k == "f":
        return "%s(%s)*" % (expect(t[1]), ",".join(expect(p) for p in t[2]))
    raise ValueError(t)


def type_closure(depth):
    base = [("b", "int"), ("b", "char"), ("b", "long"), ("b", "double"), ("s", "S"), ("e", "E"), ("t", "T")]
    level = list(base)
    allt = list(base)
    for d in range(depth):
        nxt = []
        for t in level:
            nxt.append(("p", t))
            if t[0] not in "c":
                nxt.append(("c", t))
            if t[0] not in "v" and d == 0 and t[0] == "b":
                nxt.append(("v", t))
        # (qualifiers on a function's return type are meaningless in C and dropped by the compilers, so the return type is unqualified)
        unq = [t for t in level if t[0] not in "cv"]
        nxt.append(("f", unq[d % len(unq)], (level[(d + 1) % len(level)],)))
        nxt.append(("p", ("b", "void")))
        # qualified void pointees next to plain void* in the same translation unit (their DIE names must stay distinct)
        nxt += [("p", ("v", ("b", "void"))), ("p", ("c", ("b", "void"))), ("p", ("c", ("v", ("b", "void"))))]
        seen = set(map(repr, allt))
        nxt = [t for t in nxt if repr(t) not in seen]
        allt += nxt
        level = nxt
    return allt


def units(depth, quick):
    ts = type_closure(depth)
    decls = [("struct", "S", [("a", ("b", "int"), None), ("b", ("b", "char"), None)]), ("enum", "E", [("E0", 0), ("E1", 1)]), ("typedef", "T", ("s", "S"))]
    out = []
    rets = [("b", "int"), ("b", "void"), ("p", ("s", "S")), ("e", "E")]
    for t in ts:
        out.append({"ret": ("b", "int"), "params": [t], "var": None, "variadic": False})
        if not (t[0] in "cv" and t[1][0] in "bse"):
            pass
        out.append({"ret": None, "params": [], "var": t if t != ("p", ("b", "void")) or True else t, "variadic": False})
    for r in rets + [t for t in ts if t[0] in "pt"][:10]:
        out.append({"ret": r, "params": [("b", "int")], "var": None, "variadic": False})
    pairs = list(itertools.product(ts if not quick else ts[::3], repeat=2))
    if quick:
        pairs = pairs[::2]
    for a, b in pairs:
        out.append({"ret": ("b", "int"), "params": [a, b], "var": None, "variadic": False})
    for t in ts[:8]:
        out.append({"ret": ("b", "int"), "params": [t], "var": None, "variadic": True})
    us = []
    for o in out:
        fn = None if o["ret"] is None else {"name": "f", "ret": o["ret"], "params": [("p%d" % i, t) for i, t in enumerate(o["params"])], "variadic": o["variadic"]}
        var = ("g", o["var"]) if o["var"] is not None else None
        if var and var[1][0] == "c" and var[1][1][0] in "bset":
            pass
        us.append((decls, fn, var))
    return us


def stages(ctx):
    us = units(2 if ctx.quick else 3, ctx.quick)
    idx = list(range(len(us)))
    cfgs = [("gcc", None), ("clang", None)] if ctx.quick else [("gcc", None), ("gcc", 4), ("gcc", 5), ("clang", None), ("clang", 5)]
    return [("all-signatures", [{"ids": c, "cc": cc, "dwarf": dw, "depth": 2 if ctx.quick else 3} for c in pc.chunks(idx, PACK) for cc, dw in cfgs])]


_cache = {}


def evaluate(ctx, e):
    key = (e["depth"], ctx.quick)
    if key not in _cache:
        _cache[key] = units(e["depth"], ctx.quick)
    allu = _cache[key]
    fl = ["-g"] + (["-gdwarf-%d" % e["dwarf"]] if e.get("dwarf") else [])
    packed = []
    for i in e["ids"]:
        decls, fn, var = allu[i]
        packed.append((i, ps.Unit(list(decls), dict(fn) if fn else None, var).rename(str(i))))
    lib = ps.build_pack(packed, cc=e["cc"], flags=fl)
    rc, doc, err = pc.run(ctx, "abidw", [lib])
    if rc != 0:
        raise core.HarnessError("abidw failed: %s" % err[-200:])
    d = abixml.Doc(doc)
    fns, vs = d.functions(), d.variables()
    fails, outs = [], {}
    cfg = "%s-dw%s" % (e["cc"], e.get("dwarf") or "def")

    def norm(s):
        # qualifier order is immaterial ("const volatile" == "volatile const"); const void is a documented normalisation
        return s.replace("volatile const", "const volatile").replace("const volatile void", "volatile void").replace("const void", "void").replace("* volatile const", "* const volatile")
    for i, u in packed:
        ok = True
        if u.fn:
            el = fns.get(u.fn["name"])
            if el is None:
                fails.append({"sig": "C16 abidw mismatch:function-missing %s" % cfg, "what": "function %s is not in the ABIXML" % u.fn["name"]})
                continue
            ret, params, variadic = d.signature(el)
            eret = expect(u.fn["ret"])
            eparams = [expect(t) for _, t in u.fn["params"]]
            src = u.emit_fn()
            if norm(ret) != norm(eret):
                ok = False
                fails.append({"sig": "C16 abidw mismatch:return-type %s" % cfg, "what": "%s: recorded return type %r, declared %r" % (src, ret, eret)})
            if [norm(x) for x in params] != [norm(x) for x in eparams]:
                ok = False
                shape = "+".join(t[0] for _, t in u.fn["params"])
                fails.append({"sig": "C16 abidw mismatch:parameters %s %s" % (shape, cfg), "what": "%s: recorded parameters %r, declared %r" % (src, params, eparams)})
            if variadic != bool(u.fn.get("variadic")):
                ok = False
                fails.append({"sig": "C16 abidw mismatch:variadic %s" % cfg, "what": "%s: recorded variadic=%s" % (src, variadic)})
        if u.var:
            el = vs.get(u.var[0])
            if el is None:
                fails.append({"sig": "C16 abidw mismatch:variable-missing %s" % cfg, "what": "variable %s is not in the ABIXML" % u.var[0]})
                continue
            got = d.type_string(el.attrib["type-id"])
            if norm(got) != norm(expect(u.var[1])):
                ok = False
                fails.append({"sig": "C16 abidw mismatch:variable-type %s %s" % (u.var[1][0], cfg), "what": "%s: recorded type %r, declared %r" % (u.emit_var(), got, expect(u.var[1]))})
        outs["match" if ok else "mismatch"] = outs.get("match" if ok else "mismatch", 0) + 1
    return {"evaluations": len(packed), "nontrivial_count": len(packed), "outcomes": outs, "failures": fails[:10], "sample": {"config": cfg, "unit": packed[0][1].emit()[-200:]}}
