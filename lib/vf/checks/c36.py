"""C36 — tools report failure when their output could not be written."""
import os
import re

from .. import build, core, seeds, toolrun

LEVEL = "fault_enumeration"
ENGINE = "faultio"
TECHNIQUE = "exhaustive enumeration of output crash points: every output size limit k (RLIMIT_FSIZE) and every k-th failing write/close system call (strace fault injection), plus /dev/full and a closed stdout"
RULE = ("output paths: abidw to stdout, abidw --out-file, abilint FILE to stdout, abilint --stdin to stdout; documents of 5.6 KB, 14 KB and ~90 KB (crossing several stdio buffers); "
        "faults: RLIMIT_FSIZE = k for k in the first/last 8 (quick) / 64 bytes, every 4096-byte boundary +-1 and a stride of 1021 (quick) / 97 over the rest (stride 1 on the small document in the thorough tier), "
        "the k-th write() failing with ENOSPC / EIO for every k up to the number of writes of a clean run, close() failing on --out-file, /dev/full, closed stdout. "
        "Oracle: if the bytes that reached the destination differ from the clean run's output, the exit status must be non-zero. Non-trivial: the fault actually truncated the output.")
TEXT = ("Every crash point of the short write history of one tool run is enumerated (fault space of deviation 1: exactly one failing operation or one size limit per run); "
        "the reference output is the tool's own fault-free output.")
NOTE = "Faults are injected at the system-call boundary only (short writes are produced by the size limit); errors other than EFBIG/ENOSPC/EIO and failures of fsync are not modelled. strace injection runs need a real exec (slow), so they are limited to every write of three documents."
ASSUMPTIONS = ["a write beyond RLIMIT_FSIZE fails with EFBIG after a partial write (SIGXFSZ ignored)", "strace -P restricts injection to the output file"]
_docs = {}
_variant = "plain"
JOBS = 4


def prepare(ctx):
    toolrun.tool(_variant, "abidw")
    for n in ("basic", "cxx", "big"):
        lib = seeds.build(n)
        rc, out, err = toolrun.run_tool(ctx, _variant, "abidw", ["--no-corpus-path", lib], spawn=True)
        if rc != 0:
            raise core.HarnessError("abidw failed on seed %s: %s" % (n, err[-300:]))
        p = os.path.join(ctx.scratch, n + ".abi")
        with open(p, "wb") as f:
            f.write(out)
        _docs[n] = (lib, p, out)


PATHS = ["abidw-stdout", "abidw-outfile", "abilint-stdout", "abilint-stdin"]


def _cmd(path, doc, outfile):
    lib, abi, ref = _docs[doc]
    if path == "abidw-stdout":
        return "abidw", ["--no-corpus-path", lib], None, ref
    if path == "abidw-outfile":
        return "abidw", ["--no-corpus-path", "--out-file", outfile, lib], None, ref
    if path == "abilint-stdout":
        return "abilint", [abi], None, None
    return "abilint", ["--stdin"], ref, None


def _ks(size, dense, quick=False):
    edge = 8 if quick else 64
    ks = set(range(0, min(edge, size))) | set(range(max(0, size - edge), size))
    for b in range(4096, size, 4096):
        ks.update((b - 1, b, b + 1))
    ks.update(range(0, size, 1 if dense else (1021 if quick else 97)))
    return sorted(k for k in ks if 0 <= k < size)


def stages(ctx):
    st1, st2 = [], []
    for p in PATHS:
        for d in ("basic", "cxx", "big"):
            st1.append({"path": p, "doc": d, "fault": "devfull"})
            if p != "abidw-outfile":
                st1.append({"path": p, "doc": d, "fault": "closed"})
            if not ctx.quick or d != "cxx":
                st1.append({"path": p, "doc": d, "fault": "inject", "quick": ctx.quick})
            st2.append({"path": p, "doc": d, "fault": "fsize", "dense": False, "quick": ctx.quick})
    st = [("devfull+closed+every-failing-write", st1), ("size-limits-strided", st2)]
    if not ctx.quick:
        st.append(("size-limits-every-byte(5.6KB doc)", [{"path": p, "doc": "basic", "fault": "fsize", "dense": True} for p in PATHS]))
    return st


def _ref_for(ctx, path, doc):
    """Clean-run output of this path (abilint's output may legitimately differ from abidw's)."""
    out = os.path.join(ctx.tmpdir("ref"), "out.abi")
    tool, args, stdin, _ = _cmd(path, doc, out)
    if path == "abidw-outfile":
        rc, o, e = toolrun.run_tool(ctx, _variant, tool, args, stdin=stdin)
        data = open(out, "rb").read() if os.path.exists(out) else b""
    else:
        rc, o, e = toolrun.run_tool(ctx, _variant, tool, args, stdin=stdin, stdout="file:" + out)
        data = open(out, "rb").read()
    if rc != 0 or not data:
        raise core.HarnessError("clean run of %s on %s failed: rc=%s %s" % (path, doc, rc, e[-200:]))
    return data


def _judge(e, k, rc, dest, ref, fails, outs, what):
    truncated = dest != ref
    if truncated and rc == 0:
        cls = e["fault"] if e["fault"] != "fsize" else ("fsize-" + ("start" if k == 0 else "last-block" if k is not None and k >= len(ref) - (len(ref) % 4096 or 4096) else "middle"))
        fails.append({"sig": "C36 %s exit0 short-output %s" % (e["path"], cls),
                      "what": "%s exited 0 although only %d of %d output bytes reached the destination (%s)" % (e["path"], len(dest), len(ref), what),
                      "element": dict(e, only=k)})
        outs["exit0-truncated"] = outs.get("exit0-truncated", 0) + 1
    else:
        key = ("failure-reported" if truncated else "complete-exit%s" % rc)
        outs[key] = outs.get(key, 0) + 1
    return truncated


def evaluate(ctx, e):
    ref = _ref_for(ctx, e["path"], e["doc"])
    fails, outs = [], {}
    n = nt = 0
    d = ctx.tmpdir("f")
    out = os.path.join(d, "out.abi")
    tool, args, stdin, _ = _cmd(e["path"], e["doc"], out)
    if e["fault"] == "devfull":
        if e["path"] == "abidw-outfile":
            tool, args, stdin, _ = _cmd(e["path"], e["doc"], "/dev/full")
            rc, o, er = toolrun.run_tool(ctx, _variant, tool, args, stdin=stdin)
        else:
            rc, o, er = toolrun.run_tool(ctx, _variant, tool, args, stdin=stdin, stdout="append:/dev/full")
        n, nt = 1, 1
        _judge(e, None, rc, b"", ref, fails, outs, "destination /dev/full")
    elif e["fault"] == "closed":
        rc, o, er = toolrun.run_tool(ctx, _variant, tool, args, stdin=stdin, stdout="closed")
        n, nt = 1, 1
        _judge(e, None, rc, b"", ref, fails, outs, "stdout closed")
    elif e["fault"] == "fsize":
        ks = [e["only"]] if e.get("only") is not None else _ks(len(ref), e.get("dense", False), e.get("quick", False))
        for k in ks:
            if os.path.exists(out):
                os.unlink(out)
            if e["path"] == "abidw-outfile":
                rc, o, er = toolrun.run_tool(ctx, _variant, tool, args, stdin=stdin, fsize=k)
            else:
                rc, o, er = toolrun.run_tool(ctx, _variant, tool, args, stdin=stdin, fsize=k, stdout="file:" + out)
            dest = open(out, "rb").read() if os.path.exists(out) else b""
            n += 1
            nt += _judge(e, k, rc, dest, ref, fails, outs, "RLIMIT_FSIZE=%d" % k)
    elif e["fault"] == "inject":
        # real exec under strace; count the writes of a clean run first
        exe = toolrun.tool(_variant, tool)
        log = os.path.join(d, "trace.log")

        def srun(inject):
            if os.path.exists(out):
                os.unlink(out)
            cmd = ["strace", "-f", "-o", log, "-P", out, "-e", "trace=write,writev,pwrite64,close"] + inject + [exe] + args
            if e["path"] == "abidw-outfile":
                rc, o, er = core.run(cmd, timeout=60, stdin=stdin, ctx=ctx)
            else:
                with open(out, "wb") as fh:
                    import subprocess
                    p = subprocess.Popen(cmd, stdin=subprocess.PIPE if stdin is not None else subprocess.DEVNULL, stdout=fh, stderr=subprocess.PIPE, env=ctx.env())
                    _, er = p.communicate(stdin, timeout=60)
                    rc = p.returncode
            return rc, (open(out, "rb").read() if os.path.exists(out) else b"")
        rc, dest = srun([])
        if rc != 0 or dest != ref:
            raise core.HarnessError("clean strace run differs: rc=%s len=%d/%d" % (rc, len(dest), len(ref)))
        lines = open(log).read().splitlines()
        counts = {"write": len([l for l in lines if re.search(r"\bwrite\(", l)]), "writev": len([l for l in lines if re.search(r"\bwritev\(", l)])}
        nwrites = counts["write"] + counts["writev"]
        # strace keeps one 'when' counter per system call: libstdc++'s filebuf uses writev() for the
        # middle blocks and write() for the rest, so both are enumerated separately
        plan = [(call, err, k) for call in ("write", "writev") for err in (("ENOSPC",) if e.get("quick") else ("ENOSPC", "EIO")) for k in range(1, counts[call] + 1)]
        if e["path"] == "abidw-outfile":
            plan.append(("close", "EIO", 1))
        if e.get("only") is not None:
            plan = [tuple(e["only"])]
        for call, err, k in plan:
            rc, dest = srun(["-e", "inject=%s:error=%s:when=%d" % (call, err, k)])
            n += 1
            if call == "close":
                # the data may have reached the file, but the tool was told the close failed
                nt += 1
                if rc == 0:
                    fails.append({"sig": "C36 %s exit0 close-failure" % e["path"], "what": "%s exited 0 although close() of the output file failed with %s" % (e["path"], err),
                                  "element": dict(e, only=[call, err, k])})
                    outs["exit0-close-failed"] = outs.get("exit0-close-failed", 0) + 1
                else:
                    outs["failure-reported"] = outs.get("failure-reported", 0) + 1
                continue
            t = dest != ref
            nt += t
            if t and rc == 0:
                fails.append({"sig": "C36 %s exit0 short-output inject-%s" % (e["path"], "first-" + call if k == 1 else "last-" + call if k == counts[call] else "middle-" + call),
                              "what": "%s exited 0 although %s #%d of %d failed with %s (%d of %d bytes written)" % (e["path"], call, k, counts[call], err, len(dest), len(ref)),
                              "element": dict(e, only=[call, err, k])})
                outs["exit0-truncated"] = outs.get("exit0-truncated", 0) + 1
            else:
                outs["failure-reported" if t else "complete-exit%s" % rc] = outs.get("failure-reported" if t else "complete-exit%s" % rc, 0) + 1
    return {"evaluations": n, "nontrivial_count": nt, "outcomes": outs, "failures": fails,
            "sample": {"path": e["path"], "doc": e["doc"], "fault": e["fault"], "runs": n, "output_bytes": len(ref)}}
