"""C41 — name and path helpers behave as specified (exhaustive over token strings)."""
from .. import probe

LEVEL = "exploration"
ENGINE = "apiprobe"
TECHNIQUE = "bounded exhaustive enumeration of all token strings / string pairs against reference definitions"
RULE = ("dne: every ordered pair of strings of <= N tokens over {a,b,::,:,space,comma,__anonymous_struct__,__anonymous_union__,__anonymous_enum__,1}; "
        "split: every string of <= N tokens over {a,b,space,comma,;,tab} x 5 delimiter sets; fix: every ordered pair of strings of <= N chars over {a . / space}. "
        "Non-trivial: dne pairs that differ and contain a separator or anonymous part; split inputs with >1 field; fix pairs where the prefix/suffix relation holds non-trivially. "
        "Shards partition the first string, bounds are disjoint (pairs inside a smaller bound are skipped).")
TEXT = ("All pairs of qualified-name-like strings up to 3 (quick) / 4 (thorough) tokens are fed to decl_names_equal (symmetry, reflexivity, coincidence with string equality "
        "when no anonymous part is present); all strings up to 6/7 tokens to split_string against a reference splitter; all pairs of strings up to 4/5 characters to "
        "string_begins_with, string_ends_with, string_suffix, trim_white_space and trim_leading_string (with a hang timer). Exhaustive within the bound.")
NOTE = "Where the documentation leaves a corner open (trailing-space trimming in split_string, empty remainder in string_suffix) both readings are accepted. Longer strings and other alphabets are not covered."
ASSUMPTIONS = ["reference definitions: std::string compare/strip semantics as documented in the function comments"]
NSH = 16
_exe = None


def prepare(ctx):
    global _exe
    _exe = probe.build_probe("plain", "apiprobe_c41", extra_flags=["-O2"])


def _st(mode, n, nmin=-1):
    return [{"mode": mode, "n": n, "shard": i, "nshards": NSH, "nmin": nmin} for i in range(NSH)]


def stages(ctx):
    st = [("dne<=2,split<=4,fix<=3", _st("dne", 2) + _st("split", 4) + _st("fix", 3)),
          ("dne<=3,split<=6,fix<=4", _st("dne", 3, 2) + _st("split", 6, 4) + _st("fix", 4, 3))]
    if not ctx.quick:
        st += [("split<=7,fix<=5", _st("split", 7, 6) + _st("fix", 5, 4)),
               ("dne<=4", [{"mode": "dne", "n": 4, "shard": i, "nshards": 64, "nmin": 3} for i in range(64)])]
    return st


def evaluate(ctx, e):
    if "one" in e:
        return probe.run_probe(ctx, _exe, ["--one"] + list(e["one"]))
    return probe.run_probe(ctx, _exe, [e["mode"], e["n"], e["shard"], e["nshards"], e["nmin"]], timeout=2400)
