"""C19 — symbol-only comparisons report exactly the symbol set difference."""
import itertools
import re

from .. import core, pscommon as pc, report_parser, symlib, toolrun

LEVEL = "exploration"
ENGINE = "progspace"
TECHNIQUE = "bounded exhaustive exploration: every ordered pair of states of a versioned-symbol universe (2 functions + 1 variable, each absent / unversioned / default version / non-default version) built without debug info"
RULE = ("all 64 x 64 ordered pairs of states in the thorough tier, every pair differing in <= 2 symbols in the quick tier; binaries built with -g0. Oracle: the names+versions abidiff lists as removed / added symbols equal "
        "old - new / new - old as sets of (name, version); an unversioned symbol re-exported as the default version (name -> name@@V) may be reported either as kept (the documented rule) or as removed+added (the strict reading); "
        "any removal sets the incompatible-change bit; identical sets give exit status 0 and no output. Non-trivial: pairs with different symbol sets.")
TEXT = "Complete pair space of the universe within the bound; the expected sets come from the generator's specification, which C18 validates against readelf."
NOTE = "Three symbols and one version node; larger tables are covered by C18 / C37."
RX = r"\b(sym[abv](?:@@?V1)?)(?![\w@])"


def prepare(ctx):
    toolrun.tool("plain", "abidiff")


def stages(ctx):
    states = list(itertools.product(symlib.STATES, repeat=3))
    pairs = []
    for a in states:
        for b in states:
            nd = sum(1 for x, y in zip(a, b) if x != y)
            if nd <= (2 if ctx.quick else 3):
                pairs.append([list(a), list(b)])
    if ctx.quick:
        pairs = pairs[::3]
    return [("state-pairs", [{"pairs": c} for c in pc.chunks(pairs, 20)])]


def _names(state):
    """Symbols identified by (name, version), as the property says; whether a version is the default one is not part of the identity."""
    out = set()
    for (n, ver, dflt, isfn) in symlib.expected(tuple(state)):
        out.add(n + ("@" + ver if ver else ""))
    return out


def _norm(names):
    return set(n.replace("@@", "@") for n in names)


def evaluate(ctx, e):
    fails, outs = [], {}
    nt = 0
    for a, b in e["pairs"]:
        v1, v2 = symlib.build(tuple(a)), symlib.build(tuple(b))
        rc, out, err = pc.abidiff(ctx, v1, v2)
        if not isinstance(rc, int) or rc < 0 or (rc & 3):
            raise core.HarnessError("abidiff failed: rc=%s %s" % (rc, err[-200:]))
        rep = report_parser.parse(out)
        old, new = _names(a), _names(b)
        removed = _norm(pc.names_in(rep, ["removed_function_symbols", "removed_variable_symbols", "removed_functions", "removed_variables"], RX))
        added = _norm(pc.names_in(rep, ["added_function_symbols", "added_variable_symbols", "added_functions", "added_variables"], RX))
        exp_rem, exp_add = old - new, new - old
        # the documented corner: unversioned -> default version is "kept"
        dflt_new = set(n for (n, ver, d, f) in symlib.expected(tuple(b)) if d)
        corner = set(n for n in exp_rem if "@" not in n and n + "@V1" in exp_add and n in dflt_new)
        alt_rem, alt_add = exp_rem - corner, exp_add - set(n + "@V1" for n in corner)
        trans = "+".join(sorted(set("%s->%s" % (x, y) for x, y in zip(a, b) if x != y))) or "same"
        ok = (removed, added) in ((exp_rem, exp_add), (alt_rem, alt_add))
        if old != new:
            nt += 1
        if not ok:
            fails.append({"sig": "C19 abidiff mismatch:symbol-sets %s" % trans,
                          "what": "old %s new %s: reported removed %s added %s, expected removed %s added %s" % (sorted(old), sorted(new), sorted(removed), sorted(added), sorted(exp_rem), sorted(exp_add)),
                          "element": {"pairs": [[a, b]]}})
        if removed and (rc & 12) != 12:
            fails.append({"sig": "C19 abidiff exit%s removal-without-incompatible-bit %s" % (rc, trans), "what": "symbols %s removed but exit status %s" % (sorted(removed), rc), "element": {"pairs": [[a, b]]}})
        if old == new and (rc != 0 or out.strip()):
            fails.append({"sig": "C19 abidiff exit%s identical-symbol-sets" % rc, "what": "identical symbol sets %s: exit %s, output %s" % (sorted(old), rc, out[:200]), "element": {"pairs": [[a, b]]}})
        outs["ok" if ok else "bad"] = outs.get("ok" if ok else "bad", 0) + 1
    return {"evaluations": len(e["pairs"]), "nontrivial_count": nt, "outcomes": outs, "failures": fails[:8], "sample": {"pair": e["pairs"][0]}}
