"""C24 — type suppressions never hide changes that violate their constraints."""
import itertools
import os
import re

from .. import abixml, core, pscommon as pc, progspace as ps, report_parser

LEVEL = "exploration"
ENGINE = "progspace"
TECHNIQUE = "bounded exhaustive exploration: every struct edit (insert at each position, remove each member, shrinking retype) x every [suppress_type] section of a generated family (name / regexp incl. invalid ones / type_kind / accessed_through / source location / all insertion-range boundary pairs); safety oracle from the generator's model and the first type's layout"
RULE = ("structs of <= 2 (quick) / <= 3 (thorough) members over {char,int,long,int*} reached through a pointer (and by value / typedef in thorough); edits: insert an int or char member at every position, remove every member, "
        "retype long->int (shrinks). Suppressions: name = other type; name_regexp not matching; name_regexp syntactically invalid ('S_0(', '*S', 'S_[0'); type_kind in {enum, union, typedef, array, builtin}; file_name_regexp / soname_regexp that are invalid or do not match the binaries; "
        "accessed_through = reference (the type is reached through a pointer); source_location_not_in = the file that defines the type; has_data_member_inserted_at = end and has_data_member_inserted_between = {b, e} for all "
        "boundary pairs b <= e over {0, 32, 64, ..., size+64} u {end, offset_of(m), offset_after(m) for each member}, and has_data_members_inserted_between with every two disjoint integer ranges. Oracle (safety direction only): when the model says a constraint is violated - wrong name/kind/path/location, invalid "
        "regex, a member removed, the type shrunk, or the inserted member's offset (taken from the second binary's ABIXML, validated by C15) outside [b, e] evaluated on the first type - the change must still be reported. "
        "Non-trivial: every (edit, suppression) where the model expects a report.")
TEXT = "All boundary pairs and all constraint kinds for every edit; never asserts that something IS suppressed, only that violating changes are not."
NOTE = "Boundaries are evaluated on the layout of the first type as documented; offsets come from abidw output, whose layouts C15 validates against the compiler."


def prepare(ctx):
    from .. import toolrun
    toolrun.tool("plain", "abidiff")


def stages(ctx):
    codes = ["c", "i", "l", "p"]
    specs = []
    for n in ((1, 2) if ctx.quick else (1, 2, 3)):
        for ms in itertools.product(codes, repeat=n):
            for p in (("ptr",) if ctx.quick else ("ptr", "byval", "typedef")):
                specs.append({"k": "struct", "m": list(ms), "p": p})
    el = []
    for s in specs:
        u = pc.unit_from_spec(s)
        for l, v, x in pc.edits(u, "breaking"):
            if l.startswith(("insert-member", "remove-member")) or l in ("retype-member@0-int", "retype-member@1-int", "retype-member@2-int"):
                el.append({"spec": s, "label": l})
    return [("all-edits-x-constraints", el)]


def _layout(doc, name):
    d = abixml.Doc(doc)
    el = d.aggregates()[name][0]
    return int(el.attrib["size-in-bits"]), dict((m, o) for m, o, t in d.members(el))


def evaluate(ctx, e):
    spec, label = e["spec"], e["label"]
    v1, v2, info = pc.build_pair([[spec, label]], "breaking")
    idx, u1, u2, exp, _, _ = info[0]
    rc0, out0, err0 = pc.abidiff(ctx, v1, v2)
    if not isinstance(rc0, int) or not (rc0 & 4):
        return {"evaluations": 1, "nontrivial_count": 0, "outcomes": {"edit-not-reported-at-all": 1}, "failures": []}
    rc, d1, err = pc.run(ctx, "abidw", [v1])
    rc2, d2, err2 = pc.run(ctx, "abidw", [v2])
    if rc != 0 or rc2 != 0 or b"S_0" not in d1 or b"S_0" not in d2:
        raise core.HarnessError("abidw failed on the pair: rc=%s/%s out=%d/%d bytes err=%r %r" % (rc, rc2, len(d1), len(d2), err[-200:], err2[-200:]))
    size1, off1 = _layout(d1, "S_0")
    size2, off2 = _layout(d2, "S_0")
    m1 = [m for m, t, b in [d for d in u1.types if d[1] == "S_0"][0][2]]
    inserted = [m for m in off2 if m not in off1]
    removed = [m for m in off1 if m not in off2]
    shrunk = size2 < size1
    ins_off = off2[inserted[0]] if inserted else None
    # boundary candidates evaluated on the FIRST type
    bvals = [("%d" % x, x) for x in range(0, size1 + 65, 32)] + [("end", 1 << 63)]
    order = sorted(off1, key=lambda m: off1[m])
    for i, m in enumerate(order):
        bvals.append(("offset_of(%s)" % m, off1[m]))
        nxt = off1[order[i + 1]] if i + 1 < len(order) else None
        # offset_after(m): offset of the next member, else end of m (size not known here for the last one: skip)
        if nxt is not None:
            bvals.append(("offset_after(%s)" % m, nxt))
    supprs = []   # (class, text, must_report)
    supprs += [("name-other", "name = S_zz", True), ("name_regexp-nomatch", "name_regexp = ^Q_.*$", True), ("name_regexp-invalid-paren", "name_regexp = S_0(", True),
               ("name_regexp-invalid-star", "name_regexp = *S", True), ("name_regexp-invalid-bracket", "name_regexp = S_\\[0", True)]
    for k in ("enum", "union", "typedef", "array", "builtin"):
        supprs.append(("type_kind-" + k, "name = S_0\n  type_kind = %s" % k, True))
    if spec["p"] == "ptr":
        supprs.append(("accessed_through-reference", "name = S_0\n  accessed_through = reference", True))
    supprs += [("file_name_regexp-invalid", "name = S_0\n  file_name_regexp = *x", True), ("file_name_regexp-nomatch", "name = S_0\n  file_name_regexp = ^nomatch$", True),
               ("soname_regexp-invalid", "name = S_0\n  soname_regexp = lib(", True), ("soname_regexp-nomatch", "name = S_0\n  soname_regexp = ^nomatch$", True)]
    supprs.append(("source_location_not_in-defining-file", "name = S_0\n  source_location_not_in = tu0.c", True))
    last_off = max(off1.values())
    viol_base = bool(removed) or shrunk
    supprs.append(("inserted_at-end", "name = S_0\n  has_data_member_inserted_at = end", viol_base or (ins_off is not None and ins_off <= last_off)))
    for (bn, bv), (en, ev) in itertools.product(bvals, repeat=2):
        if bv > ev:
            continue
        if bn == "end" and en == "end":
            continue
        outside = ins_off is not None and (ins_off < bv or ins_off > ev)
        supprs.append(("inserted_between-%s-%s" % (re.sub(r"\(.*\)", "", bn) if not bn.isdigit() else "int", re.sub(r"\(.*\)", "", en) if not en.isdigit() else "int"),
                       "name = S_0\n  has_data_member_inserted_between = {%s, %s}" % (bn, en), viol_base or outside))
    ints = [x for x in range(0, size1 + 65, 32)]
    rngs = [(b, e_) for b in ints for e_ in ints if b <= e_]
    for (b1, e1), (b2, e2) in itertools.combinations(rngs, 2):
        if e1 >= b2:
            continue
        outside = ins_off is not None and not (b1 <= ins_off <= e1) and not (b2 <= ins_off <= e2)
        supprs.append(("inserted_between-two-ranges", "name = S_0\n  has_data_members_inserted_between = {{%d, %d}, {%d, %d}}" % (b1, e1, b2, e2), viol_base or outside))
    d = ctx.tmpdir("c24")
    fails, outs = [], {}
    n = nt = 0
    kind = "insert" if inserted and not removed else "remove" if removed else "shrink" if shrunk else "other"
    for cls, body, must in supprs:
        sp = os.path.join(d, "s.suppr")
        with open(sp, "w") as f:
            f.write("[suppress_type]\n  %s\n" % body)
        rc, out, err = pc.abidiff(ctx, v1, v2, ["--suppressions", sp])
        n += 1
        nt += 1 if must else 0
        reported = isinstance(rc, int) and rc >= 0 and (rc & 4) and "f_0" in out or (isinstance(rc, int) and (rc & 4) and "g_0" in out)
        if not must:
            k = "allowed-and-hidden" if not reported else "allowed-but-reported"
            outs[k] = outs.get(k, 0) + 1
            continue
        if not reported:
            fails.append({"sig": "C24 abidiff over-suppressed %s %s" % (kind, cls),
                          "what": "edit '%s' on %s (inserted at %s, size %d->%d) is hidden by [suppress_type] %r although the constraint is violated (exit %s)" % (label, u1.tag, ins_off, size1, size2, body, rc)})
        outs["reported" if reported else "hidden"] = outs.get("reported" if reported else "hidden", 0) + 1
    return {"evaluations": n, "nontrivial_count": nt, "outcomes": outs, "failures": fails[:10], "sample": {"spec": spec, "edit": label, "suppressions": n}}
