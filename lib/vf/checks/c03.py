"""C03 — re-serializing ABIXML is a byte-exact fixpoint."""
import os

from .. import core, pscommon as pc
from . import c02

LEVEL = "exploration"
ENGINE = "progspace"
TECHNIQUE = "bounded exhaustive exploration: every node binary x abidw option set; abilint output compared byte for byte with its input, and abilint --diff"
RULE = ("documents = abidw output of every node binary (C01) under every single option of C02 (and all pairs in the thorough tier); oracle: abilint D prints exactly D; abilint --diff D exits 0. "
        "Non-trivial: every document.")
TEXT = "Complete cross of node binaries and abidw option sets; the oracle is byte equality."
NOTE = "Documents produced by abidw only, as the property states."


def prepare(ctx):
    from .. import toolrun
    toolrun.tool("plain", "abilint")


def stages(ctx):
    bins = pc.node_binary_specs(ctx.quick)
    return [("documents", [{"bin": b, "sets": c02._subsets(1 if ctx.quick else 2)} for b in bins])]


def _first_diff(a, b):
    la, lb = a.split(b"\n"), b.split(b"\n")
    for i, (x, y) in enumerate(zip(la, lb)):
        if x != y:
            return i + 1, x[:160], y[:160]
    return min(len(la), len(lb)) + 1, b"", b""


def evaluate(ctx, e):
    b = e["bin"]
    path = pc.node_binary(b)
    d = ctx.tmpdir("c03")
    fails, outs = [], {}
    n = 0
    for o in e["sets"]:
        rc, doc, err = pc.run(ctx, "abidw", o + [path])
        if rc != 0:
            continue
        x = os.path.join(d, "x.abi")
        with open(x, "wb") as f:
            f.write(doc)
        lint_opts = []     # abilint has no output options in this version
        rc, out, err = pc.run(ctx, "abilint", lint_opts + [x])
        n += 1
        oname = "+".join(t for t in o if t.startswith("--")) or "default"
        kind = ("seed-" + b["seed"]) if "seed" in b else "pack"
        if rc != 0 or out != doc:
            ln, a1, a2 = _first_diff(doc, out)
            # classify the first differing line by the element it holds
            import re
            m = re.search(rb"<([\w-]+)", a1) or re.search(rb"<([\w-]+)", a2)
            m2 = re.search(rb"<([\w-]+)", a2)
            cls = (m.group(1).decode() if m else "text") + ("->" + m2.group(1).decode() if m2 and m and m2.group(1) != m.group(1) else "")
            fails.append({"sig": "C03 abilint mismatch:bytes %s %s" % (cls, oname),
                          "what": "abilint output differs from its input (%s, abidw %s) at line %d: %r vs %r (exit %s)" % (b["id"], o, ln, a1, a2, rc), "element": {"bin": b, "sets": [o]}})
            outs["differs"] = outs.get("differs", 0) + 1
        else:
            outs["identical"] = outs.get("identical", 0) + 1
        rc, out, err = pc.run(ctx, "abilint", lint_opts + ["--diff", x], fast=False)
        n += 1
        if rc != 0 and not (fails and fails[-1].get("element", {}).get("sets") == [o]):
            fails.append({"sig": "C03 abilint exit%s diff-mode %s" % (rc, kind), "what": "abilint --diff exits %s on %s (abidw %s): %s" % (rc, b["id"], o, out[:300]), "element": {"bin": b, "sets": [o]}})
    return {"evaluations": n, "nontrivial_count": len(e["sets"]), "outcomes": outs, "failures": fails, "sample": {"binary": b["id"], "option_sets": e["sets"][:3]}}
