"""C27 — whitelists and keep/drop patterns select exactly the named interfaces."""
import itertools
import os
import re

from .. import abixml, cbuild, core, pscommon as pc, report_parser, toolrun

LEVEL = "exploration"
ENGINE = "progspace"
TECHNIQUE = "bounded exhaustive exploration: a library whose symbol names contain every regular-expression metacharacter an INI whitelist can carry (each next to a decoy name the unescaped pattern would also match) x all whitelists of <= 2 names (+ absent names, full list) through abidw and abidiff; all single and all pairs of --keep*/--drop* options over a pattern alphabet; oracle = set membership / Python re on the generator's names"
RULE = ("symbols (functions unless noted): f_a, f_ab, f.a, fxa, f_a+, f_aa, f$, f(x), f|a, f*, f?, f^a, g_a (var), g.a (var), gxa (var), g_a+ (var); each interface i has its own struct T_i. Version 2 grows every T_i, version 3 removes every "
        "interface. Whitelists: every set of 1 or 2 names, the full set, each also with absent names (nothere, f_, f); every list also names the anchor symbol zz_anchor so that no binary ends up with an empty selection (that corner is a stage of its own). Oracle (abidw --kmi-whitelist W): the ELF symbols and the function/variable declarations of the ABIXML are exactly W n U. "
        "Oracle (abidiff --kmi-whitelist W v1 v2 / v1 v3): the interfaces reported as changed / removed are exactly W n U and no other interface is mentioned. Keep/drop: interfaces f_a f_ab f_b g_a g_ab g_b; options "
        "{--keep-fn, --drop-fn, --keep-var, --drop-var, --keep, --drop} x patterns {^f_a$, f_a, ^f_, _ab$, ^g_a$, g_, .*, nomatch}: every single option and every pair of options (pair patterns from a 4-letter sub-alphabet); "
        "model: an interface is compared iff (no keep pattern applies to its kind or one matches) and no drop pattern of its kind matches (Python re.search as the ERE reference for these metachar-free patterns). Non-trivial: every run.")
TEXT = "All whitelists of size <= 2 over the 16-name universe (+ absent names); all singles and pairs of keep/drop options."
NOTE = "Names are restricted to what an INI property name can carry ([ ] { } = , # ; and blanks cannot be written in a whitelist)."

FN_SYMS = ["f_a", "f_ab", "f.a", "fxa", "f_a+", "f_aa", "f$", "f(x)", "f|a", "f*", "f?", "f^a"]
VAR_SYMS = ["g_a", "g.a", "gxa", "g_a+"]
ABSENT = ["nothere", "f_", "f"]
KD_FN = ["f_a", "f_ab", "f_b"]
KD_VAR = ["g_a", "g_ab", "g_b"]
PATTERNS = ["^f_a$", "f_a", "^f_", "_ab$", "^g_a$", "g_", ".*", "nomatch"]
OPTS = ["--keep-fn", "--drop-fn", "--keep-var", "--drop-var", "--keep", "--drop"]


def _lib(fn_syms, var_syms, version):
    """version 1: base; 2: every struct grown; 3: every interface removed."""
    src, redef = [], []
    for i, s in enumerate(fn_syms):
        src.append("struct T_%d { int a;%s };" % (i, " int grown;" if version == 2 else ""))
        if version != 3:
            src.append("int fn_%d(struct T_%d* p) { return p != 0; }" % (i, i))
            redef += ["--redefine-sym", "fn_%d=%s" % (i, s)]
    for j, s in enumerate(var_syms):
        src.append("struct V_%d { long a;%s };" % (j, " int grown;" if version == 2 else ""))
        if version != 3:
            src.append("struct V_%d gv_%d;" % (j, j))
            redef += ["--redefine-sym", "gv_%d=%s" % (j, s)]
    src.append("int zz_anchor(void) { return 0; }")
    post = ([["objcopy"] + redef + ["{out}"]] if redef else []) + [["gcc", "-shared", "-Wl,-soname,libw.so", "-o", "{dir}/libw.so", "{out}"]]
    o = cbuild.compile_units([("w.c", "\n".join(src) + "\n", ["-g"])], out_name="w.o", kind="reloc", post=post, tag="c27")
    return os.path.join(os.path.dirname(o), "libw.so")


def _cls(rc, err):
    c = toolrun.classify(rc, err)
    return c[0] if c else "exit%s" % rc


def _kdlib(version):
    src = []
    for s in KD_FN:
        src.append("struct T%s { int a;%s };" % (s, " int grown;" if version == 2 else ""))
        if version != 3:
            src.append("int %s(struct T%s* p) { return p != 0; }" % (s, s))
    for s in KD_VAR:
        src.append("struct V%s { long a;%s };" % (s, " int grown;" if version == 2 else ""))
        if version != 3:
            src.append("struct V%s %s;" % (s, s))
    src.append("int zz_anchor(void) { return 0; }")
    return cbuild.shared_c("\n".join(src) + "\n", name="libkd.so", link=["-Wl,-soname,libkd.so"], tag="c27")


def prepare(ctx):
    toolrun.tool("plain", "abidiff")
    toolrun.tool("plain", "abidw")
    for v in (1, 2, 3):
        _lib(FN_SYMS, VAR_SYMS, v)
        _kdlib(v)


def stages(ctx):
    U = FN_SYMS + VAR_SYMS
    wl = [[x] for x in U] + [list(p) for p in itertools.combinations(U, 2)] + [list(U)]
    el = []
    for w in wl:
        el.append({"kind": "wl", "names": w, "absent": []})
    for w in (wl if not ctx.quick else wl[::5]):
        el.append({"kind": "wl", "names": w, "absent": ABSENT})
    kd = []
    for o in OPTS:
        for p in PATTERNS:
            kd.append({"kind": "kd", "opts": [[o, p]]})
    sub = ["^f_a$", "f_a", "g_", ".*"] if ctx.quick else PATTERNS
    for o1, o2 in itertools.combinations_with_replacement(OPTS, 2):
        for p1 in sub:
            for p2 in sub:
                if o1 == o2 and p1 >= p2:
                    continue
                kd.append({"kind": "kd", "opts": [[o1, p1], [o2, p2]]})
    es = [{"kind": "wl", "names": [x], "absent": [], "no_anchor": True} for x in ("f_a", "g_a", "f.a")]
    return [("whitelists<=2-names", el), ("keep-drop-options<=2", kd), ("whitelist-selecting-nothing-from-one-binary", es)]


def _reported(out):
    """indices of interfaces mentioned per section kind."""
    rep = report_parser.parse(out)
    res = {}
    for sec in rep.sections:
        res[sec] = set(re.findall(r"\b(fn_\d+|gv_\d+|[fg]_ab?\b|[fg]_b)\b", " ".join(e.split("'")[1] if "'" in e else e for e in rep.entries(sec))))
    return rep, res


def evaluate(ctx, e):
    fails, outs = [], {}
    n = 0

    def bump(k):
        outs[k] = outs.get(k, 0) + 1
    if e["kind"] == "wl":
        fn_syms, var_syms = FN_SYMS, VAR_SYMS
        W = set(e["names"])
        d = ctx.tmpdir("c27")
        wp = os.path.join(d, "wl")
        with open(wp, "w") as f:
            f.write("[abi_whitelist]\n" + "".join("  %s\n" % x for x in e["names"] + e["absent"] + ([] if e.get("no_anchor") else ["zz_anchor"])))
        cls = "size%d%s" % (len(W), "+absent" if e["absent"] else "")
        meta = sorted(set(c for x in W for c in x if not (c.isalnum() or c == "_"))) or ["plain"]
        mcls = "".join(meta)
        v1, v2, v3 = (_lib(fn_syms, var_syms, v) for v in (1, 2, 3))
        exp_fn = set("fn_%d" % i for i, s in enumerate(fn_syms) if s in W)
        exp_var = set("gv_%d" % j for j, s in enumerate(var_syms) if s in W)
        # abidw route
        rc, out, err = pc.run(ctx, "abidw", ["--kmi-whitelist", wp, v1])
        n += 1
        if rc != 0:
            fails.append({"sig": "C27 abidw %s kmi-whitelist%s" % (_cls(rc, err), " empty-selection" if e.get("no_anchor") else ""), "what": "W=%s rc=%s %s" % (sorted(W), rc, err[-300:])})
        else:
            doc = abixml.Doc(out)
            syms = set(re.findall(r"<elf-symbol name='([^']*)'", out if isinstance(out, str) else out.decode()))
            import html
            syms = set(html.unescape(s) for s in syms) - {"zz_anchor"}
            decls = set(x for x in re.findall(r"<(?:function-decl|var-decl) name='((?:fn|gv)_\d+)'", out if isinstance(out, str) else out.decode()))
            want_syms = W & set(fn_syms + var_syms)
            ok = True
            if syms != want_syms:
                fails.append({"sig": "C27 abidw whitelist-symbols-%s %s" % ("missing" if want_syms - syms else "extra", mcls), "what": "W=%s: ELF symbols in ABIXML %s, expected %s" % (sorted(W), sorted(syms), sorted(want_syms))})
                ok = False
            if decls != exp_fn | exp_var:
                fails.append({"sig": "C27 abidw whitelist-decls-%s %s" % ("missing" if (exp_fn | exp_var) - decls else "extra", mcls), "what": "W=%s: declarations %s, expected %s" % (sorted(W), sorted(decls), sorted(exp_fn | exp_var))})
                ok = False
            bump("abidw:" + ("exact" if ok else "wrong"))
        # abidiff routes
        for tag, b, secs_f, secs_v in (("changed", v2, "changed_functions", "changed_variables"), ("removed", v3, "removed_functions", "removed_variables")):
            rc, out, err = pc.abidiff(ctx, v1, b, ["--kmi-whitelist", wp])
            n += 1
            if not isinstance(rc, int) or rc < 0 or rc & 3:
                fails.append({"sig": "C27 abidiff %s kmi-whitelist%s" % (_cls(rc, err), " empty-selection-" + tag if e.get("no_anchor") else ""), "what": "W=%s rc=%s %s" % (sorted(W), rc, err[-300:])})
                continue
            rep, res = _reported(out)
            gf, gv = res.get(secs_f, set()), res.get(secs_v, set())
            allm = set(re.findall(r"\b(fn_\d+|gv_\d+)\b", out))
            symm = set()
            for sec in ("removed_function_symbols", "removed_variable_symbols", "added_function_symbols", "added_variable_symbols"):
                for en in rep.entries(sec):
                    symm.add(en[2:].split(",")[0].strip())
            ok = True
            if gf != exp_fn or gv != exp_var:
                miss = (exp_fn - gf) | (exp_var - gv)
                fails.append({"sig": "C27 abidiff whitelist-%s-%s %s" % (tag, "missing" if miss else "extra", mcls),
                              "what": "W=%s: %s functions %s variables %s, expected %s %s\n%s" % (sorted(W), tag, sorted(gf), sorted(gv), sorted(exp_fn), sorted(exp_var), out[:300])})
                ok = False
            extra = (allm - exp_fn - exp_var)
            if extra or (symm - W):
                fails.append({"sig": "C27 abidiff whitelist-%s-mentions-unlisted %s" % (tag, mcls), "what": "W=%s: report mentions %s %s\n%s" % (sorted(W), sorted(extra), sorted(symm - W), out[:400])})
                ok = False
            bump("abidiff-%s:%s" % (tag, "exact" if ok else "wrong"))
    else:
        opts = e["opts"]
        v1, v2, v3 = (_kdlib(v) for v in (1, 2, 3))
        keep_f = [p for o, p in opts if o in ("--keep-fn", "--keep")]
        keep_v = [p for o, p in opts if o in ("--keep-var", "--keep")]
        drop_f = [p for o, p in opts if o in ("--drop-fn", "--drop")]
        drop_v = [p for o, p in opts if o in ("--drop-var", "--drop")]
        # the decl names are fn_i / gv_j in the source but the *names* the options match are the declaration names:
        # here declarations are named like their symbols (no objcopy needed: plain identifiers)
        def kept(name, keep, drop):
            return (not keep or any(re.search(p, name) for p in keep)) and not any(re.search(p, name) for p in drop)
        exp_fn = set(s for s in KD_FN if kept(s, keep_f, drop_f))
        exp_var = set(s for s in KD_VAR if kept(s, keep_v, drop_v))
        argv = [x for o, p in opts for x in (o, p)]
        cls = "+".join(o for o, p in opts)
        for tag, b, secs_f, secs_v in (("changed", v2, "changed_functions", "changed_variables"), ("removed", v3, "removed_functions", "removed_variables")):
            rc, out, err = pc.abidiff(ctx, v1, b, argv)
            n += 1
            if not isinstance(rc, int) or rc < 0 or rc & 3:
                fails.append({"sig": "C27 abidiff %s keep-drop %s" % (_cls(rc, err), cls), "what": "%s rc=%s %s" % (argv, rc, err[-300:])})
                continue
            rep, res = _reported(out)
            gf, gv = res.get(secs_f, set()), res.get(secs_v, set())
            ok = True
            if gf != exp_fn or gv != exp_var:
                miss = (exp_fn - gf) | (exp_var - gv)
                fails.append({"sig": "C27 abidiff keep-drop-%s-%s %s" % (tag, "missing" if miss else "extra", cls),
                              "what": "%s: %s functions %s variables %s, expected %s %s\n%s" % (argv, tag, sorted(gf), sorted(gv), sorted(exp_fn), sorted(exp_var), out[:300])})
                ok = False
            allm = set(re.findall(r"(?<![\w])([fg]_(?:ab|a|b))(?![\w])", out))
            symm = set()
            for sec in ("removed_function_symbols", "removed_variable_symbols", "added_function_symbols", "added_variable_symbols"):
                for en in rep.entries(sec):
                    symm.add(en[2:].split(",")[0].strip())
            if (allm - exp_fn - exp_var) or symm:
                fails.append({"sig": "C27 abidiff keep-drop-%s-mentions-dropped %s" % (tag, cls), "what": "%s: report mentions %s %s\n%s" % (argv, sorted(allm - exp_fn - exp_var), sorted(symm), out[:400])})
                ok = False
            bump("keepdrop-%s:%s" % (tag, "exact" if ok else "wrong"))
    return {"evaluations": n, "nontrivial_count": n, "outcomes": outs, "failures": fails, "sample": e}
