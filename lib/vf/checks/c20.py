"""C20 — type canonicalization agrees with structural equality."""
import re

from .. import build, core, probe, pscommon as pc, toolrun

LEVEL = "exploration"
ENGINE = "progspace"
TECHNIQUE = "bounded exhaustive exploration: every node binary analysed by a build with the library's own debug checks (abidw --debug-tc, --debug-abidiff), and an in-process probe comparing canonical identity with structural equality for EVERY pair of types of each binary"
RULE = ("node binaries of C01 (packs of all units, seed programs incl. recursive types, decl-only/defined mixes across TUs, anonymous types, C++ classes; gcc and clang). Oracle 1: abidw --debug-tc and abidw --debug-abidiff "
        "(build configured with the debug-type-canonicalization / debug-self-comparison macros) exit 0 and print no 'error:' line. Oracle 2: with all types loaded, for every unordered pair of types that carry a canonical "
        "type: same canonical type <=> structurally equal (canonical comparison switched off). Oracle 2 is also evaluated on pairs of libraries loaded into ONE environment (as abidiff does): chains of 3-4 (thorough 2-6) mutually recursive structs whose head struct changes one member (int -> long) between the two versions, every combination of member orders (back pointer first / forward pointer first in each middle struct), both function orders - every type of the second version that reaches the head must get a canonical type of its own. Non-trivial: pairs of distinct type objects sharing a canonical type.")
TEXT = "Every pair of types of every node binary is compared both ways; the library's own checks are run on the same binaries."
NOTE = "Types without canonical type (documented non-canonicalized kinds) are skipped by oracle 2."
_probe = None


def prepare(ctx):
    global _probe
    toolrun.tool("debugtc", "abidw")
    _probe = probe.build_probe("debugtc", "apiprobe_canon", extra_flags=["-fno-access-control", "-DWITH_DEBUG_TYPE_CANONICALIZATION"])


def _chain_source(k, order, xt, fn_order):
    """k mutually recursive structs C0 .. C(k-1): C0 {C1* n; XT x;}, Ci {back; fwd} (member order per `order`), C(k-1) {C(k-2)* p;}."""
    names = ["C%d" % i for i in range(k)]
    out = ["struct %s;" % n for n in names]
    out.append("struct C0 { struct C1* n; %s x; };" % xt)
    for i in range(1, k - 1):
        back, fwd = "struct C%d* p;" % (i - 1), "struct C%d* n;" % (i + 1)
        out.append("struct C%d { %s %s };" % (i, fwd, back) if order[i - 1] == "f" else "struct C%d { %s %s };" % (i, back, fwd))
    out.append("struct C%d { struct C%d* p; };" % (k - 1, k - 2))
    fns = ["int f_head(struct C0* a) { return a != 0; }", "int f_tail(struct C%d* a) { return a != 0; }" % (k - 1)]
    if fn_order == "tail-first":
        fns.reverse()
    return "\n".join(out + fns) + "\n"


def stages(ctx):
    import itertools
    # per middle struct: b = pointer back to the predecessor first, f = pointer forward to the successor first
    chains = [{"chain": k, "order": "".join(o), "fn_order": f} for k in ((3, 4) if ctx.quick else (2, 3, 4, 5, 6))
              for o in itertools.product("bf", repeat=max(k - 2, 0)) for f in ("head-first", "tail-first")]
    return [("all-node-binaries", [{"bin": b} for b in pc.node_binary_specs(ctx.quick) if not b.get("nodebug")]),
            ("recursive-chains-two-versions-one-environment", chains)]


def evaluate(ctx, e):
    if "chain" in e:
        from .. import cbuild
        libs = [cbuild.shared_c(_chain_source(e["chain"], e["order"], xt, e["fn_order"]), name="libchain.so", link=["-Wl,-soname,libchain.so"], tag="c20") for xt in ("int", "long")]
        r = probe.run_probe(ctx, _probe, libs, timeout=600)
        fails = []
        for f in r["failures"]:
            f["sig"] = f["sig"] + " chain"
            f["element"] = dict(e)          # confirmation re-evaluates this chain, not the probe's own file element
            fails.append(f)
        return {"evaluations": r["evaluations"], "nontrivial_count": r.get("nontrivial_count", 0), "outcomes": r["outcomes"], "failures": fails[:10], "sample": e}
    b = e["bin"]
    path = pc.node_binary(b)
    kind = ("seed-" + b["seed"]) if "seed" in b else "pack"
    fails, outs = [], {}
    n = 0
    for opt in ("--debug-tc", "--debug-abidiff"):
        rc, out, err = toolrun.run_tool(ctx, "debugtc", "abidw", [opt, path], timeout=120)
        n += 1
        txt = (err + out[:0]).decode(errors="replace")
        errs = [l for l in txt.splitlines() if "error" in l.lower() or "different for type" in l]
        if rc != 0 or errs:
            classes = set()
            for l in errs[:50]:
                m = re.search(r"wrong canonical type for '(\w+) type", l)
                classes.add(("wrong-canonical-" + m.group(1) + "-type") if m else "no-type-with-type-id" if "no type with type-id" in l else "structural-vs-canonical" if "different for type" in l else "other")
            for c in sorted(classes) or ["exit%s" % rc]:
                fails.append({"sig": "C20 abidw %s %s" % (opt.strip("-"), c), "what": "abidw %s on %s: exit %s; %s" % (opt, b["id"], rc, " | ".join(errs[:2])[:400])})
        outs["%s-%s" % (opt, "clean" if rc == 0 and not errs else "fires")] = 1
    r = probe.run_probe(ctx, _probe, [path], timeout=600)
    for k, v in r["outcomes"].items():
        outs[k] = outs.get(k, 0) + v
    for f in r["failures"]:
        f["element"] = e
        fails.append(f)
    return {"evaluations": n + r["evaluations"], "nontrivial_count": r["nontrivial_count"], "outcomes": outs, "failures": fails, "sample": {"binary": b["id"], "type_pairs": r["evaluations"]}}
