"""C04 — emitted ABIXML is well-formed and self-contained."""
import hashlib
import os
import subprocess
import xml.etree.ElementTree as ET

from .. import cbuild, core, pscommon as pc, xmlmut

LEVEL = "exploration"
ENGINE = "progspace"
TECHNIQUE = "bounded exhaustive exploration: every node binary, and the complete (injection site x payload) grid plus all pairs of sites for XML metacharacters in symbol names, SONAME, DT_NEEDED and source paths; independent judges: expat and an id-resolution pass"
RULE = ("(a) every node binary of C01 under abidw default and --type-id-style hash; (b) injection grid: site in {function symbol, variable symbol, SONAME, DT_NEEDED, source file name, compilation directory} x "
        "payload in {<, >, &, ', \", UTF-8 e-acute, Latin-1 0xE9, 0x01, ]]>, --}, every (site, payload) and every pair of sites with the payloads <&'; symbols are renamed with objcopy --redefine-sym, "
        "SONAME via -Wl,-soname. Oracle: expat parses the document; every type-id / naming-typedef-id reference resolves to exactly one id; no id is defined twice; every elf-symbol-id and alias names an "
        "entry of the document's symbol tables. Non-trivial: every document.")
TEXT = "Complete grid within the stated payload and site sets; the judges are independent of libabigail (expat, ElementTree)."
NOTE = "Symbol version names are not injected (the linker restricts them); control characters other than 0x01 are not tried."
PAYLOADS = [("lt", b"<"), ("gt", b">"), ("amp", b"&"), ("apos", b"'"), ("quot", b'"'), ("utf8", "é".encode()), ("latin1", b"\xe9"), ("ctrl", b"\x01"), ("cdata-end", b"]]>"), ("dashes", b"--")]
SITES = ["fsym", "vsym", "soname", "needed", "srcfile", "compdir"]
CACHE = os.path.join(cbuild.CACHE, "c04")


def prepare(ctx):
    from .. import toolrun
    toolrun.tool("plain", "abidw")


def stages(ctx):
    bins = pc.node_binary_specs(ctx.quick)
    grid = [{"inject": {s: p}} for s in SITES for p, _ in PAYLOADS]
    pairs = [{"inject": {a: p, b: p}} for i, a in enumerate(SITES) for b in SITES[i + 1:] for p in ("lt", "amp", "apos")]
    return [("nodes+injection-grid", [{"bin": b} for b in bins] + grid + pairs)]


def _build_injected(inj):
    pay = dict(PAYLOADS)
    key = hashlib.sha256(repr(sorted(inj.items())).encode()).hexdigest()[:16]
    root = os.path.join(CACHE, key)
    out = os.path.join(root, "out", "libinj.so")
    if os.path.exists(out + ".ok"):
        return out
    os.makedirs(os.path.join(root, "out"), exist_ok=True)
    def nm(site, base):
        return base.encode() + (b"_" + pay[inj[site]] + b"_x" if site in inj else b"")
    compdir = os.path.join(root.encode(), nm("compdir", "cd"))
    os.makedirs(compdir, exist_ok=True)
    src = nm("srcfile", "src") + b".c"
    with open(os.path.join(compdir, src), "w") as f:
        f.write("int fsym(int x) { return x; }\nint vsym = 1;\nextern int depfn(void);\nint user(void) { return depfn(); }\n")
    with open(os.path.join(compdir, b"dep.c"), "w") as f:
        f.write("int depfn(void) { return 3; }\n")
    env = dict(cbuild.ENV)
    def run(cmd, cwd):
        r = subprocess.run(cmd, cwd=cwd, env=env, stdout=subprocess.PIPE, stderr=subprocess.STDOUT)
        if r.returncode != 0:
            raise core.HarnessError("build step failed: %r\n%s" % (cmd, r.stdout.decode(errors="replace")[-600:]))
    depso = os.path.join(root.encode(), b"out", b"libdep.so")
    run([b"gcc", b"-g", b"-shared", b"-fPIC", b"-o", depso, b"dep.c", b"-Wl,-soname=" + nm("needed", "libdep") + b".so"], compdir)
    run([b"gcc", b"-g", b"-c", b"-fPIC", src, b"-o", b"main.o"], compdir)
    ren = []
    if "fsym" in inj:
        ren += [b"--redefine-sym", b"fsym=" + nm("fsym", "fsym")]
    if "vsym" in inj:
        ren += [b"--redefine-sym", b"vsym=" + nm("vsym", "vsym")]
    if ren:
        run([b"objcopy"] + ren + [b"main.o"], compdir)
    run([b"gcc", b"-shared", b"-o", out.encode(), b"main.o", depso, b"-Wl,-soname=" + nm("soname", "libinj") + b".so"], compdir)
    open(out + ".ok", "w").close()
    return out


def _judge(doc):
    """Returns list of (class, description)."""
    probs = []
    if not xmlmut.well_formed(doc):
        import xml.parsers.expat
        p = xml.parsers.expat.ParserCreate()
        try:
            p.Parse(doc, True)
        except xml.parsers.expat.ExpatError as ex:
            line = doc.split(b"\n")[max(0, ex.lineno - 1)][:200]
            import re
            m = re.search(rb"<([\w-]+)", line)
            return [("ill-formed-" + (m.group(1).decode() if m else "text"), "expat: %s at line %d: %r" % (ex, ex.lineno, line))]
    root = ET.fromstring(doc)
    ids, syms = {}, set()
    for el in root.iter():
        if "id" in el.attrib and el.tag != "elf-symbol":
            ids[el.attrib["id"]] = ids.get(el.attrib["id"], 0) + 1
        if el.tag == "elf-symbol":
            n = el.attrib.get("name", "")
            v = el.attrib.get("version")
            syms.add(n if not v else "%s%s%s" % (n, "@@" if el.attrib.get("is-default-version") == "yes" else "@", v))
            syms.add(n)
    # class / union declarations-then-definitions legitimately repeat an id when is-declaration-only; count only definitions
    for i, c in ids.items():
        if c > 1:
            els = [e for e in root.iter() if e.attrib.get("id") == i and e.tag != "elf-symbol"]
            defs = [e for e in els if e.attrib.get("is-declaration-only") != "yes"]
            if len(defs) > 1 and len(set(ET.tostring(e) for e in defs)) > 1:
                probs.append(("duplicate-id", "id %s is defined %d times with different content" % (i, len(defs))))
    for el in root.iter():
        for a in ("type-id", "naming-typedef-id"):
            r = el.attrib.get(a)
            if r is not None and r not in ids:
                probs.append(("dangling-" + a, "<%s %s='%s'> has no definition" % (el.tag, a, r)))
        r = el.attrib.get("elf-symbol-id")
        if r is not None and r not in syms:
            probs.append(("dangling-elf-symbol-id", "<%s elf-symbol-id='%s'> is not in the symbol tables" % (el.tag, r)))
        if el.tag == "elf-symbol" and el.attrib.get("alias"):
            for a in el.attrib["alias"].split(","):
                if a not in syms:
                    probs.append(("dangling-alias", "alias '%s' of symbol %s is not in the symbol tables" % (a, el.attrib.get("name"))))
    return probs[:6]


def evaluate(ctx, e):
    fails, outs = [], {}
    n = 0
    if "bin" in e:
        path = pc.node_binary(e["bin"])
        label = e["bin"]["id"]
        cls_in = ("seed-" + e["bin"]["seed"]) if "seed" in e["bin"] else "pack"
        optsets = [[], ["--type-id-style", "hash"]]
    else:
        path = _build_injected(e["inject"])
        label = "injection %s" % e["inject"]
        cls_in = "+".join("%s:%s" % kv for kv in sorted(e["inject"].items()))
        optsets = [[]]
    for o in optsets:
        rc, doc, err = pc.run(ctx, "abidw", o + [path])
        n += 1
        if rc != 0:
            outs["abidw-exit%s" % rc] = outs.get("abidw-exit%s" % rc, 0) + 1
            if isinstance(rc, int) and rc < 0 or rc == "timeout":
                fails.append({"sig": "C04 abidw crash %s" % cls_in, "what": "abidw crashed (rc %s) on %s" % (rc, label)})
            continue
        probs = _judge(doc)
        outs["ok" if not probs else "bad"] = outs.get("ok" if not probs else "bad", 0) + 1
        for cls, what in probs[:3]:
            fails.append({"sig": "C04 abidw %s %s" % (cls, cls_in if "inject" in e else "node"), "what": "%s: %s" % (label, what)})
    return {"evaluations": n, "nontrivial_count": n, "outcomes": outs, "failures": fails, "sample": {"case": label}}
