"""C23 — function and variable suppressions hide exactly what they name."""
import os
import re

from .. import core, pscommon as pc, report_parser

LEVEL = "exploration"
ENGINE = "progspace"
TECHNIQUE = "bounded exhaustive exploration: every mixed pack (changed + removed, and added when compared backwards) x every interface of the pack as target x selector kind x change_kind value; oracle = report without suppression minus exactly the target"
RULE = ("packs of ~24 units with several changed, removed (and, backwards, added) functions and variables; for each reported interface t: a [suppress_function] / [suppress_variable] section selecting t by "
        "name, name_regexp (anchored), symbol_name or symbol_name_regexp, with change_kind in {absent, subtype-change, added, deleted, all}. Oracle: when change_kind covers t's kind of change, the report equals the "
        "unsuppressed one minus t's entry, the category's filtered-out count grows by one and its net count shrinks by one; otherwise the report is unchanged; every other interface stays listed in its section; "
        "the exit status is recomputed from what remains. Non-trivial: every (pack, direction, target, selector, change_kind).")
TEXT = "Every reported interface of every pack is targeted in turn by every selector / change_kind combination."
NOTE = "Interfaces are identified by generated names (f_<n>, g_<n>), which are also their symbol names."
SECS_F = {"removed_functions": "deleted", "added_functions": "added", "changed_functions": "subtype"}
SECS_V = {"removed_variables": "deleted", "added_variables": "added", "changed_variables": "subtype"}


def prepare(ctx):
    from .. import toolrun
    toolrun.tool("plain", "abidiff")


def stages(ctx):
    packs = pc.mixed_packs(ctx.quick, size=16)
    if ctx.quick:
        return [("all-targets", [{"pack": p} for p in packs[::4]])]
    # thorough: the full catalogue in four disjoint quarters (increasing bounds), so that a deadline leaves completed bounds
    return [("all-targets(packs %d mod 4)" % k, [{"pack": p} for p in packs[k::4]]) for k in range(4)]


def _sections(out):
    rep = report_parser.parse(out)
    secs = {}
    for s in list(SECS_F) + list(SECS_V):
        secs[s] = sorted(pc.names_in(rep, [s]))
    return rep, secs


def evaluate(ctx, e):
    v1, v2, info = pc.build_pair(e["pack"], "breaking")
    d = ctx.tmpdir("c23")
    fails, outs = [], {}
    n = 0
    for direction, (a, b) in (("fwd", (v1, v2)), ("bwd", (v2, v1))):
        rc0, out0, err0 = pc.abidiff(ctx, a, b)
        rep0, secs0 = _sections(out0)
        targets = [(t, s) for s in secs0 for t in secs0[s]]
        for t, sec in targets:
            isfn = t.startswith("f_")
            kindmap = SECS_F if isfn else SECS_V
            tkind = kindmap[sec]
            word = "function" if isfn else "variable"
            cks = [None, "%s-subtype-change" % word, "added-%s" % word, "deleted-%s" % word, "all"]
            for sel in ("name", "name_regexp", "symbol_name", "symbol_name_regexp"):
                for ck in cks:
                    val = t if "regexp" not in sel else "^%s$" % t
                    text = "[suppress_%s]\n  %s = %s\n" % (word, sel, val) + ("  change_kind = %s\n" % ck if ck else "")
                    sp = os.path.join(d, "s.suppr")
                    with open(sp, "w") as f:
                        f.write(text)
                    rc, out, err = pc.abidiff(ctx, a, b, ["--suppressions", sp])
                    n += 1
                    rep, secs = _sections(out)
                    covers = ck in (None, "all") or (ck.startswith("added") and tkind == "added") or (ck.startswith("deleted") and tkind == "deleted") or ("subtype" in ck and tkind == "subtype")
                    cls = "%s-%s-%s-%s" % (word, tkind, sel, ck or "nokind")
                    exp = dict(secs0)
                    if covers:
                        exp = dict((s, [x for x in v if not (s == sec and x == t)]) for s, v in secs0.items())
                    if secs != exp:
                        diff = [(s, secs0[s], secs[s]) for s in secs if secs[s] != exp[s]]
                        fails.append({"sig": "C23 abidiff mismatch:%s %s" % ("target-still-listed" if covers and t in secs[sec] else "other-interface-affected" if covers else "hidden-despite-change-kind", cls),
                                      "what": "suppression %r (%s): expected sections %s, got %s" % (text, direction, [(s, exp[s]) for s, _, _ in diff][:2], [(s, g) for s, _, g in diff][:2])})
                        continue
                    if covers:
                        cat = "functions" if isfn else "variables"
                        field = {"deleted": "removed", "added": "added", "subtype": "changed"}[tkind]
                        f0 = rep0.summary.get(cat, {}).get(field + "_filtered", 0)
                        f1 = rep.summary.get(cat, {}).get(field + "_filtered", 0)
                        n0 = rep0.summary.get(cat, {}).get(field, 0)
                        n1 = rep.summary.get(cat, {}).get(field, 0)
                        if f1 != f0 + 1 or n1 != n0 - 1:
                            fails.append({"sig": "C23 abidiff mismatch:filtered-count %s" % cls, "what": "suppression %r: %s %s went from %d (%d filtered) to %d (%d filtered)" % (text, field, cat, n0, f0, n1, f1)})
                    elif out != out0 or rc != rc0:
                        fails.append({"sig": "C23 abidiff mismatch:report-changed-despite-change-kind %s" % cls, "what": "suppression %r must not apply, yet exit %s vs %s / output differs" % (text, rc, rc0)})
                    remaining = sum(len(v) for v in secs.values())
                    if isinstance(rc, int) and bool(rc & 4) != (remaining > 0):
                        fails.append({"sig": "C23 abidiff mismatch:exit-status %s" % cls, "what": "exit status %s with %d interfaces still reported" % (rc, remaining)})
                    outs["hidden" if covers else "kept"] = outs.get("hidden" if covers else "kept", 0) + 1
    return {"evaluations": n, "nontrivial_count": n, "outcomes": outs, "failures": fails[:12], "sample": {"units": len(info), "first": e["pack"][0]}}
