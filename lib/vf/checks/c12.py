"""C12 — presentation options never change the verdict."""
import itertools

from .. import core, pscommon as pc, report_parser

LEVEL = "exploration"
ENGINE = "progspace"
TECHNIQUE = "bounded exhaustive exploration: every mixed pack of breaking edges x every subset of size <= 2 (all 256 subsets on a core in the thorough tier) of the presentation options; verdict compared with the option-free run"
RULE = ("packs of C10 (forward and backward); option subsets of {--no-show-locs, --show-bytes, --show-bits, --show-hex, --show-dec, --no-linkage-name, --no-show-relative-offset-changes, --no-corpus-path, --no-architecture}; "
        "oracle: exit status and the sets of removed / added / changed interfaces (by generated name) equal those of the run without presentation options. Non-trivial: every (pack, direction, subset).")
TEXT = "Complete cross up to the stated subset size; no suppression refers to file names (none is used)."
NOTE = "--no-architecture is only used on pairs of equal architecture (always the case here)."
OPTS = ["--no-show-locs", "--show-bytes", "--show-bits", "--show-hex", "--show-dec", "--no-linkage-name", "--no-show-relative-offset-changes", "--no-corpus-path", "--no-architecture"]
SECS = ["removed_functions", "added_functions", "changed_functions", "removed_variables", "added_variables", "changed_variables",
        "removed_function_symbols", "added_function_symbols", "removed_variable_symbols", "added_variable_symbols"]


def prepare(ctx):
    from .. import toolrun
    toolrun.tool("plain", "abidiff")


def _subsets(maxn):
    out = []
    for n in range(1, maxn + 1):
        for c in itertools.combinations(OPTS, n):
            out.append(list(c))
    return out


def stages(ctx):
    packs = pc.mixed_packs(ctx.quick)
    st = [("subsets<=2", [{"pack": p, "sets": _subsets(2)} for p in (packs[::2] if ctx.quick else packs)])]
    if not ctx.quick:
        st.append(("all-subsets(core)", [{"pack": p, "sets": _subsets(9)[45:]} for p in packs[:3]]))
    return st


def _verdict(out):
    rep = report_parser.parse(out)
    return dict((s, sorted(pc.names_in(rep, [s]))) for s in SECS)


def evaluate(ctx, e):
    v1, v2, info = pc.build_pair(e["pack"], "breaking")
    fails, outs = [], {}
    n = 0
    for direction, (a, b) in (("fwd", (v1, v2)), ("bwd", (v2, v1))):
        rc0, out0, err0 = pc.abidiff(ctx, a, b)
        base = _verdict(out0)
        for o in e["sets"]:
            rc, out, err = pc.abidiff(ctx, a, b, o)
            n += 1
            if not isinstance(rc, int) or rc < 0 or (rc & 1):
                fails.append({"sig": "C12 abidiff exit%s options %s" % (rc, "+".join(o)), "what": "abidiff %s fails: %s" % (o, err[-200:]), "element": {"pack": e["pack"], "sets": [o]}})
                continue
            v = _verdict(out)
            if rc != rc0 or v != base:
                diff = [s for s in SECS if v[s] != base[s]]
                fails.append({"sig": "C12 abidiff mismatch:%s %s" % ("exit-status" if rc != rc0 else diff[0], "+".join(o)),
                              "what": "with %s (%s): exit %s vs %s, differing sections %s" % (o, direction, rc, rc0, [(s, base[s], v[s]) for s in diff][:2]),
                              "element": {"pack": e["pack"], "sets": [o]}})
        outs["same-verdict" if not fails else "different"] = outs.get("same-verdict" if not fails else "different", 0) + 1
    return {"evaluations": n, "nontrivial_count": n, "outcomes": outs, "failures": fails, "sample": {"units": len(info), "option_sets": e["sets"][:3]}}
