"""C38 — the sequence diff engine computes correct shortest edit scripts.

Space: ALL pairs (A, B) of sequences of length <= n over a k-letter alphabet,
for three equality predicates (default ==, case-insensitive chars, ints modulo
2) and for whole sequences as well as sub-ranges of larger buffers.
Oracle: O(n*m) LCS table + applying the script."""
from .. import probe

LEVEL = "exploration"
RULE = ("every ordered pair of sequences over the alphabet up to the length bound is evaluated once per "
        "(predicate, sub-range mode); a pair is non-trivial when 0 < LCS < min(|A|,|B|); pairs are distinct by construction "
        "(shards partition the first sequence)")
ASSUMPTIONS = ["equality predicates are equivalence relations", "the LCS reference is the textbook dynamic programme"]
NSH = 16
_exe = None


def prepare(ctx):
    global _exe
    _exe = probe.build_probe("plain", "apiprobe_c38", extra_flags=["-O2"])


def _stage(k, n, preds, subs, nmin=-1):
    return [{"k": k, "n": n, "pred": p, "sub": s, "shard": i, "nshards": NSH, "nmin": nmin}
            for p in preds for s in subs for i in range(NSH)]


def stages(ctx):
    allp = ["eq", "ci", "mod2"]
    st = [("k=3,n<=4", _stage(3, 4, allp, [0, 1])),
          ("k=3,n<=6", _stage(3, 6, allp, [0, 1], 4)),
          ("k=2,n<=8", _stage(2, 8, ["eq", "mod2"], [0, 1], 6))]
    if not ctx.quick:
        st += [("k=3,n<=7", _stage(3, 7, allp, [0, 1], 6)),
               ("k=2,n<=10", _stage(2, 10, ["eq", "mod2"], [0, 1], 8)),
               ("k=3,n<=8", _stage(3, 8, ["eq"], [0, 1], 7))]
    return st


def evaluate(ctx, e):
    if "one" in e:
        r = probe.run_probe(ctx, _exe, ["--one", e["one"][0], e["one"][1], e["pred"], e["sub"]])
    else:
        r = probe.run_probe(ctx, _exe, [e["k"], e["n"], e["pred"], e["sub"], e["shard"], e["nshards"], e.get("nmin", -1)], timeout=1800)
    return r

ENGINE = "apiprobe"
TECHNIQUE = "bounded exhaustive enumeration of all sequence pairs (small-scope model checking against an LCS reference model)"
TEXT = ("Every ordered pair of sequences up to length 6 (quick) / 8 (thorough) over a 3-letter alphabet, and up to length 8/10 over 2 letters, "
        "is run through the real compute_diff template with three equality predicates and with sub-range iterators; on each pair the edit script is applied, "
        "its length compared with |A|+|B|-2*LCS from a DP table and the LCS points validated. Exhaustive within the bound, so any index/off-by-one defect "
        "that manifests on short sequences is found.")
NOTE = "Sequences longer than the bound and element types other than char/int are not covered; predicates are assumed to be equivalence relations."
