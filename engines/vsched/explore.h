// Stateless, preemption-bounded depth-first explorer over vsched choice sequences,
// with state-key pruning (CHESS-style iterative context bounding).
#ifndef VS_EXPLORE_H
#define VS_EXPLORE_H
#include "vsched.h"
#include <cstdio>
#include <cstdlib>
#include <cstring>
#include <unistd.h>
#include <functional>
#include <string>
#include <unordered_set>
#include <vector>

namespace vsx {

struct Point {
  int kind, n, chosen, running_enabled;
  std::vector<vs_option> opts;
  uint64_t key;
  int preempt_before;   // preemptions used before this point
};

struct Execution {
  std::vector<Point> points;
  std::vector<std::string> events;
  bool record_events;
};

struct Stats {
  unsigned long long schedules = 0, choice_points = 0, pruned = 0, steps = 0;
  std::unordered_set<uint64_t> states;
  std::unordered_set<std::string> finals;
  bool capped = false;
};

class Explorer {
public:
  // body: one complete execution of the system under test (called inside vs_run)
  std::function<void()> body;
  // check: called after every complete execution; returns "" or a violation description
  std::function<std::string(const Execution&)> check;
  std::function<uint64_t()> shared_hash;
  std::function<std::string()> final_observation;
  std::function<void(const std::string& kind, const std::string& what, const Execution&)> on_violation;
  std::function<void(int kind)> on_choice_point;
  std::function<void(void*)> on_thread_create;
  // optional replacement of run(): must fill `cur` (e.g. by running the execution in a forked child)
  std::function<void(const std::vector<int>&, const std::vector<std::pair<int, int> >&)> custom_run;   // called before every decision (binding dumps)
  int preempt_bound = 0, spurious_budget = 0, yield_after_unlock = 0;
  long nproc = 1, max_steps = 20000;
  unsigned long long max_schedules = 0;   // 0 = unlimited
  bool record_events = false;
  // deviation mode: EVERY non-default choice costs one unit (also switches at blocking points and
  // waiter choices); preempt_bound is then the deviation bound.  Used where free exploration of all
  // non-preemptive switches is intractable (many threads / nested queues).
  bool deviation_mode = false;
  bool prune = true;      // state-key pruning (sound only if shared_hash covers all shared state the threads read)
  Stats stats;

  // current execution (also used by the fatal handler)
  Execution cur;
  std::vector<int> prefix;
  std::vector<std::pair<int, int> > prefix_shape;   // (kind, n) expected while replaying

  static int choose_cb(void* ctx, int kind, const vs_option* opts, int n, int running_enabled)
  { return ((Explorer*)ctx)->choose(kind, opts, n, running_enabled); }
  static void event_cb(void* ctx, int t, const char* op, const char* obj, long v)
  {
    Explorer* e = (Explorer*)ctx;
    if (!e->cur.record_events) return;
    char b[160]; snprintf(b, sizeof b, "T%d %s %s %ld", t, op, obj, v);
    e->cur.events.push_back(b);
  }
  static void create_cb(void* ctx, void* arg) { Explorer* e = (Explorer*)ctx; if (e->on_thread_create) e->on_thread_create(arg); }
  static uint64_t hash_cb(void* ctx) { Explorer* e = (Explorer*)ctx; return e->shared_hash ? e->shared_hash() : 0; }

  int preempts_used() const
  {
    int c = 0;
    for (size_t i = 0; i < cur.points.size(); ++i) {
      const Point& p = cur.points[i];
      if (p.kind == VS_THREAD && p.running_enabled && p.chosen != 0) ++c;
    }
    return c;
  }

  int choose(int kind, const vs_option* opts, int n, int running_enabled)
  {
    size_t i = cur.points.size();
    if (on_choice_point) on_choice_point(kind);
    Point p; p.kind = kind; p.n = n; p.running_enabled = running_enabled;
    p.opts.assign(opts, opts + n);
    p.preempt_before = preempts_used();
    p.key = vs_state_key() * 1000003ULL + (uint64_t)p.preempt_before * 31 + (uint64_t)kind;
    int c = 0;
    if (i < prefix.size()) {
      c = prefix[i];
      if (c < 0 || c >= n || (i < prefix_shape.size() && (prefix_shape[i].first != kind || prefix_shape[i].second != n))) {
	fprintf(stderr, "REPLAY DIVERGENCE at point %zu: expected kind=%d n=%d choice=%d, got kind=%d n=%d\n", i,
		i < prefix_shape.size() ? prefix_shape[i].first : -1, i < prefix_shape.size() ? prefix_shape[i].second : -1, c, kind, n);
	_exit(71);
      }
    }
    p.chosen = c;
    cur.points.push_back(p);
    return c;
  }

  struct BodyArg { Explorer* e; };
  static void body_cb(void* a) { ((Explorer*)a)->body(); }

  void run(const std::vector<int>& pfx, const std::vector<std::pair<int, int> >& shape)
  {
    prefix = pfx; prefix_shape = shape;
    cur.points.clear(); cur.events.clear(); cur.record_events = record_events;
    vs_config c; memset(&c, 0, sizeof c);
    c.choose = choose_cb; c.ctx = this; c.on_event = event_cb; c.shared_hash = hash_cb; c.on_thread_create = create_cb;
    c.spurious_budget = spurious_budget; c.yield_after_unlock = yield_after_unlock; c.max_steps = max_steps; c.nproc = nproc;
    vs_run(&c, body_cb, this);
    stats.schedules++;
    stats.choice_points += cur.points.size();
    stats.steps += vs_steps();
  }

  static std::string choices_str(const Execution& x)
  {
    std::string s;
    for (size_t i = 0; i < x.points.size(); ++i) { if (i) s += ","; s += std::to_string(x.points[i].chosen); }
    return s;
  }

  void explore(const std::vector<int>& pfx, const std::vector<std::pair<int, int> >& shape)
  {
    if (max_schedules && stats.schedules >= max_schedules) { stats.capped = true; return; }
    if (custom_run) { custom_run(pfx, shape); stats.schedules++; stats.choice_points += cur.points.size(); }
    else run(pfx, shape);
    Execution x = cur;   // copy: recursion overwrites cur
    if (final_observation) stats.finals.insert(final_observation());
    if (check) {
      std::string v = check(x);
      if (!v.empty() && on_violation) on_violation("oracle", v, x);
    }
    for (size_t i = pfx.size(); i < x.points.size(); ++i) {
      const Point& p = x.points[i];
      if (prune && !stats.states.insert(p.key).second) { stats.pruned++; continue; }   // same state, same remaining budget: subtree already explored
      int dev_before = 0;
      if (deviation_mode) for (size_t k = 0; k < i; ++k) if (x.points[k].chosen != 0) ++dev_before;
      for (int alt = 1; alt < p.n; ++alt) {
	int cost = deviation_mode ? dev_before + 1 : p.preempt_before + ((p.kind == VS_THREAD && p.running_enabled) ? 1 : 0);
	if (cost > preempt_bound) continue;
	std::vector<int> np; std::vector<std::pair<int, int> > ns;
	for (size_t k = 0; k < i; ++k) { np.push_back(x.points[k].chosen); ns.push_back(std::make_pair(x.points[k].kind, x.points[k].n)); }
	np.push_back(alt); ns.push_back(std::make_pair(p.kind, p.n));
	explore(np, ns);
	if (stats.capped) return;
      }
    }
  }
};

} // namespace vsx
#endif
