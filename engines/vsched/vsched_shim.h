/* Force-included (-include) into repository translation units that use pthreads:
   renames the entry points to the controlled scheduler.  No repository source is modified. */
#ifndef VSCHED_SHIM_H
#define VSCHED_SHIM_H
#include <pthread.h>
#include <unistd.h>
#ifdef __cplusplus
extern "C" {
#endif
int vs_pthread_create(pthread_t*, const pthread_attr_t*, void* (*)(void*), void*);
int vs_pthread_join(pthread_t, void**);
int vs_pthread_mutex_lock(pthread_mutex_t*);
int vs_pthread_mutex_unlock(pthread_mutex_t*);
int vs_pthread_cond_wait(pthread_cond_t*, pthread_mutex_t*);
int vs_pthread_cond_signal(pthread_cond_t*);
int vs_pthread_cond_broadcast(pthread_cond_t*);
long vs_sysconf(int);
#ifdef __cplusplus
}
#endif
#define pthread_create vs_pthread_create
#define pthread_join vs_pthread_join
#define pthread_mutex_lock vs_pthread_mutex_lock
#define pthread_mutex_unlock vs_pthread_mutex_unlock
#define pthread_cond_wait vs_pthread_cond_wait
#define pthread_cond_signal vs_pthread_cond_signal
#define pthread_cond_broadcast vs_pthread_cond_broadcast
#define sysconf vs_sysconf
#endif
