// vsched implementation.  Built WITHOUT sanitizers and WITHOUT the shim.
#include "vsched.h"
#include <semaphore.h>
#include <unistd.h>
#include <cstdio>
#include <cstdlib>
#include <cstring>
#include <string>
#include <vector>
#include <algorithm>

namespace {

enum OpKind { OP_NONE, OP_START, OP_LOCK, OP_UNLOCK, OP_WAIT_RELEASE, OP_WAIT_REACQUIRE,
	      OP_SIGNAL, OP_BROADCAST, OP_CREATE, OP_JOIN, OP_YIELD };
const char* OPNAME[] = {"none", "start", "lock", "unlock", "wait", "wake", "signal", "broadcast", "create", "join", "yield"};

struct Thread {
  int id;
  pthread_t os;
  sem_t sem;
  bool finished;
  OpKind op;
  int obj, obj2;       // object indexes (mutex / cond), -1 if none
  int target;          // join target
  std::string label;   // yield label
  bool signalled;      // for OP_WAIT_REACQUIRE
  bool spurious;       // woken spuriously
  uint64_t hist;
  void* (*fn)(void*);
  void* arg;
  std::string pending_text;
};

struct Obj { const void* addr; std::string name; bool is_cond; int owner; std::vector<int> waiters; };

const vs_config* cfg = 0;
std::vector<Thread*> threads;
std::vector<Obj> objs;
std::vector<std::pair<const void*, std::string> > names;
int current = -1;
long steps = 0;
int spurious_used = 0;
sem_t all_done;
__thread int self_id = -1;

inline uint64_t mix(uint64_t h, uint64_t v) { h ^= v + 0x9e3779b97f4a7c15ULL + (h << 6) + (h >> 2); return h * 0xff51afd7ed558ccdULL; }

int obj_index(const void* addr, bool is_cond)
{
  for (size_t i = 0; i < objs.size(); ++i) if (objs[i].addr == addr) return (int)i;
  Obj o; o.addr = addr; o.is_cond = is_cond; o.owner = -1;
  for (size_t i = 0; i < names.size(); ++i) if (names[i].first == addr) o.name = names[i].second;
  if (o.name.empty()) { char b[32]; snprintf(b, sizeof b, "%s%zu", is_cond ? "c" : "m", objs.size()); o.name = b; }
  objs.push_back(o);
  return (int)objs.size() - 1;
}

bool enabled(const Thread& t)
{
  if (t.finished) return false;
  switch (t.op) {
  case OP_LOCK: return objs[t.obj].owner < 0;
  case OP_WAIT_REACQUIRE: return t.signalled && objs[t.obj2].owner < 0;
  case OP_JOIN: return threads[t.target]->finished;
  case OP_NONE: return false;
  default: return true;
  }
}

bool can_spurious(const Thread& t)
{
  return !t.finished && t.op == OP_WAIT_REACQUIRE && !t.signalled && objs[t.obj2].owner < 0
    && cfg && spurious_used < cfg->spurious_budget;
}

void fatal(int status, const std::string& detail)
{
  if (vs_fatal_handler) vs_fatal_handler(status, detail.c_str());
  fprintf(stderr, "vsched fatal %d: %s\n", status, detail.c_str());
  _exit(70);
}

void event(int t, const char* op, const char* obj, long v)
{ if (cfg && cfg->on_event) cfg->on_event(cfg->ctx, t, op, obj, v); }

// Hand the token to the next thread.  Returns when `self` holds the token again
// (or immediately if self was chosen).  A finished thread never gets it back.
void schedule(Thread* self)
{
  if (cfg->max_steps && ++steps > cfg->max_steps) fatal(VS_STEP_LIMIT, "step limit exceeded (livelock suspect)");
  std::vector<vs_option> opts;
  int running_enabled = 0;
  if (enabled(*self)) { vs_option o = {self->id, 0}; opts.push_back(o); running_enabled = 1; }
  for (size_t i = 0; i < threads.size(); ++i)
    if ((int)i != self->id && enabled(*threads[i])) { vs_option o = {(int)i, 0}; opts.push_back(o); }
  for (size_t i = 0; i < threads.size(); ++i)
    if (can_spurious(*threads[i])) { vs_option o = {(int)i, 1}; opts.push_back(o); }
  if (opts.empty()) {
    bool all = true;
    for (size_t i = 0; i < threads.size(); ++i) all = all && threads[i]->finished;
    if (all) { sem_post(&all_done); return; }
    std::string d = "no enabled thread:";
    for (size_t i = 0; i < threads.size(); ++i)
      if (!threads[i]->finished) d += " T" + std::to_string(i) + "{" + vs_pending((int)i) + "}";
    fatal(VS_DEADLOCK, d);
  }
  int idx = cfg->choose(cfg->ctx, VS_THREAD, &opts[0], (int)opts.size(), running_enabled);
  if (idx < 0 || idx >= (int)opts.size()) fatal(99, "choice out of range (replay divergence)");
  Thread* next = threads[opts[idx].thread];
  if (opts[idx].spurious) {
    next->signalled = true; next->spurious = true; ++spurious_used;
    Obj& c = objs[next->obj];
    c.waiters.erase(std::remove(c.waiters.begin(), c.waiters.end(), next->id), c.waiters.end());
    event(next->id, "spurious", objs[next->obj].name.c_str(), 0);
  }
  if (next == self) return;
  current = next->id;
  bool self_finished = self->finished;   // read before the hand-off: a finished thread's record may be freed afterwards
  sem_t* my_sem = &self->sem;
  sem_post(&next->sem);
  if (!self_finished) sem_wait(my_sem);
}

void commit_hist(Thread* t, long extra)
{
  uint64_t sh = cfg->shared_hash ? cfg->shared_hash(cfg->ctx) : 0;
  t->hist = mix(mix(mix(mix(t->hist, t->op), (uint64_t)(t->obj + 1)), sh), (uint64_t)extra);
}

Thread* me() { return threads[self_id]; }

void announce(Thread* t, OpKind op, int obj, int obj2 = -1, int target = -1)
{ t->op = op; t->obj = obj; t->obj2 = obj2; t->target = target; }

void* trampoline(void* p)
{
  Thread* t = (Thread*)p;
  self_id = t->id;
  sem_wait(&t->sem);            // parked until first scheduled
  commit_hist(t, 0);
  event(t->id, "start", "", 0);
  t->op = OP_NONE;
  t->fn(t->arg);
  t->finished = true; t->op = OP_NONE;
  event(t->id, "exit", "", 0);
  schedule(t);
  return 0;
}

} // namespace

void (*vs_fatal_handler)(int, const char*) = 0;

extern "C" {

int vs_pthread_create(pthread_t* out, const pthread_attr_t* attr, void* (*fn)(void*), void* arg)
{
  if (!cfg) return pthread_create(out, attr, fn, arg);
  Thread* t = me();
  if (cfg->on_thread_create) cfg->on_thread_create(cfg->ctx, arg);
  announce(t, OP_CREATE, -1);
  schedule(t);
  commit_hist(t, (long)threads.size());
  Thread* n = new Thread();
  n->id = (int)threads.size(); n->finished = false; n->op = OP_START; n->obj = n->obj2 = -1; n->target = -1;
  n->signalled = n->spurious = false; n->hist = 0x1234 + n->id; n->fn = fn; n->arg = arg;
  sem_init(&n->sem, 0, 0);
  threads.push_back(n);
  pthread_attr_t a; pthread_attr_init(&a); pthread_attr_setstacksize(&a, 256 * 1024);
  int r = pthread_create(&n->os, &a, trampoline, n);
  pthread_attr_destroy(&a);
  if (r) fatal(98, "pthread_create failed");
  *out = n->os;
  event(t->id, "create", "", n->id);
  t->op = OP_NONE;
  return 0;
}

int vs_pthread_join(pthread_t th, void** ret)
{
  if (!cfg) return pthread_join(th, ret);
  Thread* t = me();
  int target = -1;
  for (size_t i = 0; i < threads.size(); ++i) if (i && pthread_equal(threads[i]->os, th)) target = (int)i;
  if (target < 0) fatal(98, "join of unknown thread");
  announce(t, OP_JOIN, -1, -1, target);
  schedule(t);
  commit_hist(t, target);
  pthread_join(th, ret);       // the OS thread has posted its successor and is returning
  event(t->id, "join", "", target);
  t->op = OP_NONE;
  return 0;
}

int vs_pthread_mutex_lock(pthread_mutex_t* m)
{
  if (!cfg) return pthread_mutex_lock(m);
  Thread* t = me();
  int o = obj_index(m, false);
  announce(t, OP_LOCK, o);
  schedule(t);
  if (objs[o].owner >= 0) fatal(99, "lock committed on an owned mutex");
  objs[o].owner = t->id;
  commit_hist(t, 0);
  event(t->id, "lock", objs[o].name.c_str(), 0);
  t->op = OP_NONE;
  return 0;
}

int vs_pthread_mutex_unlock(pthread_mutex_t* m)
{
  if (!cfg) return pthread_mutex_unlock(m);
  Thread* t = me();
  int o = obj_index(m, false);
  announce(t, OP_UNLOCK, o);
  schedule(t);
  if (objs[o].owner != t->id) fatal(97, "unlock of a mutex not owned by the caller");
  objs[o].owner = -1;
  commit_hist(t, 0);
  event(t->id, "unlock", objs[o].name.c_str(), 0);
  t->op = OP_NONE;
  if (cfg->yield_after_unlock) {
    announce(t, OP_YIELD, -1);
    t->label = "post-unlock";
    schedule(t);
    commit_hist(t, 0);
    event(t->id, "yield", "post-unlock", 0);
    t->op = OP_NONE;
  }
  return 0;
}

int vs_pthread_cond_wait(pthread_cond_t* c, pthread_mutex_t* m)
{
  if (!cfg) return pthread_cond_wait(c, m);
  Thread* t = me();
  int oc = obj_index(c, true), om = obj_index(m, false);
  announce(t, OP_WAIT_RELEASE, oc, om);
  schedule(t);
  if (objs[om].owner != t->id) fatal(97, "cond_wait with a mutex not owned by the caller");
  objs[om].owner = -1;
  objs[oc].waiters.push_back(t->id);
  commit_hist(t, 0);
  event(t->id, "wait", objs[oc].name.c_str(), 0);
  announce(t, OP_WAIT_REACQUIRE, oc, om);
  t->signalled = false; t->spurious = false;
  schedule(t);
  objs[om].owner = t->id;
  commit_hist(t, t->spurious ? 2 : 1);
  event(t->id, "wake", objs[oc].name.c_str(), t->spurious ? 1 : 0);
  t->op = OP_NONE; t->signalled = false;
  return 0;
}

int vs_pthread_cond_signal(pthread_cond_t* c)
{
  if (!cfg) return pthread_cond_signal(c);
  Thread* t = me();
  int oc = obj_index(c, true);
  announce(t, OP_SIGNAL, oc);
  schedule(t);
  Obj& o = objs[oc];
  long woken = -1;
  if (!o.waiters.empty()) {
    std::vector<int> w(o.waiters); std::sort(w.begin(), w.end());
    int idx = 0;
    if (w.size() > 1) {
      std::vector<vs_option> opts;
      for (size_t i = 0; i < w.size(); ++i) { vs_option op = {w[i], 0}; opts.push_back(op); }
      idx = cfg->choose(cfg->ctx, VS_WAITER, &opts[0], (int)opts.size(), 0);
      if (idx < 0 || idx >= (int)w.size()) fatal(99, "waiter choice out of range (replay divergence)");
    }
    woken = w[idx];
    threads[woken]->signalled = true;
    o.waiters.erase(std::remove(o.waiters.begin(), o.waiters.end(), (int)woken), o.waiters.end());
  }
  commit_hist(t, woken);
  event(t->id, "signal", o.name.c_str(), woken);
  t->op = OP_NONE;
  return 0;
}

int vs_pthread_cond_broadcast(pthread_cond_t* c)
{
  if (!cfg) return pthread_cond_broadcast(c);
  Thread* t = me();
  int oc = obj_index(c, true);
  announce(t, OP_BROADCAST, oc);
  schedule(t);
  Obj& o = objs[oc];
  long n = (long)o.waiters.size();
  for (size_t i = 0; i < o.waiters.size(); ++i) threads[o.waiters[i]]->signalled = true;
  o.waiters.clear();
  commit_hist(t, n);
  event(t->id, "broadcast", o.name.c_str(), n);
  t->op = OP_NONE;
  return 0;
}

long vs_sysconf(int name)
{
  if (cfg && name == _SC_NPROCESSORS_ONLN && cfg->nproc > 0) return cfg->nproc;
  return sysconf(name);
}

void vs_yield(const char* label)
{
  if (!cfg || self_id < 0) return;
  Thread* t = me();
  announce(t, OP_YIELD, -1);
  t->label = label;
  schedule(t);
  commit_hist(t, 0);
  event(t->id, "yield", label, 0);
  t->op = OP_NONE;
}

void vs_name_object(const void* addr, const char* name)
{
  names.push_back(std::make_pair(addr, std::string(name)));
  for (size_t i = 0; i < objs.size(); ++i) if (objs[i].addr == addr) objs[i].name = name;
}

void vs_note(const char* what, long value)
{ if (cfg && self_id >= 0) event(self_id, "note", what, value); }

int vs_run(const vs_config* c, void (*body)(void*), void* arg)
{
  cfg = c;
  threads.clear(); objs.clear(); names.clear();
  steps = 0; spurious_used = 0;
  sem_init(&all_done, 0, 0);
  Thread* t0 = new Thread();
  t0->id = 0; t0->finished = false; t0->op = OP_NONE; t0->obj = t0->obj2 = -1; t0->target = -1;
  t0->signalled = t0->spurious = false; t0->hist = 0x1234; t0->fn = 0; t0->arg = 0;
  sem_init(&t0->sem, 0, 0);
  threads.push_back(t0);
  self_id = 0; current = 0;
  body(arg);
  t0->finished = true; t0->op = OP_NONE;
  event(0, "exit", "", 0);
  bool all = true;
  for (size_t i = 0; i < threads.size(); ++i) all = all && threads[i]->finished;
  if (!all) { schedule(t0); sem_wait(&all_done); }
  for (size_t i = 0; i < threads.size(); ++i) { sem_destroy(&threads[i]->sem); delete threads[i]; }
  threads.clear();
  cfg = 0; self_id = -1;
  return VS_OK;
}

uint64_t vs_state_key(void)
{
  uint64_t h = 0xabcdef;
  for (size_t i = 0; i < threads.size(); ++i) {
    const Thread& t = *threads[i];
    h = mix(h, t.finished ? 1 : 2);
    h = mix(h, t.op); h = mix(h, (uint64_t)(t.obj + 1)); h = mix(h, (uint64_t)(t.obj2 + 1)); h = mix(h, (uint64_t)(t.target + 1));
    h = mix(h, t.signalled ? 3 : 4); h = mix(h, t.hist);
  }
  for (size_t i = 0; i < objs.size(); ++i) {
    h = mix(h, (uint64_t)(objs[i].owner + 2));
    std::vector<int> w(objs[i].waiters); std::sort(w.begin(), w.end());
    for (size_t k = 0; k < w.size(); ++k) h = mix(h, 100 + w[k]);
    h = mix(h, 7);
  }
  h = mix(h, (uint64_t)spurious_used);
  h = mix(h, (uint64_t)(current + 1));
  if (cfg && cfg->shared_hash) h = mix(h, cfg->shared_hash(cfg->ctx));
  return h;
}

int vs_num_threads(void) { return (int)threads.size(); }
int vs_current(void) { return current; }
long vs_steps(void) { return steps; }

const char* vs_pending(int ti)
{
  if (ti < 0 || ti >= (int)threads.size()) return "";
  Thread& t = *threads[ti];
  if (t.finished) { t.pending_text = ""; return t.pending_text.c_str(); }
  t.pending_text = OPNAME[t.op];
  if (t.op == OP_YIELD) t.pending_text += " " + t.label;
  else if (t.op == OP_JOIN) t.pending_text += " T" + std::to_string(t.target);
  else if (t.obj >= 0) t.pending_text += " " + objs[t.obj].name;
  if (t.op == OP_WAIT_REACQUIRE) t.pending_text += t.signalled ? "(signalled)" : "(waiting)";
  return t.pending_text.c_str();
}

int vs_mutex_owner(const void* addr)
{
  for (size_t i = 0; i < objs.size(); ++i) if (objs[i].addr == addr) return objs[i].owner;
  return -1;
}

int vs_cond_waiters(const void* addr, int* out, int max)
{
  for (size_t i = 0; i < objs.size(); ++i)
    if (objs[i].addr == addr) {
      std::vector<int> w(objs[i].waiters); std::sort(w.begin(), w.end());
      int n = 0;
      for (size_t k = 0; k < w.size() && n < max; ++k) out[n++] = w[k];
      return n;
    }
  return 0;
}

} // extern "C"
