// vsched: a cooperative, fully controlled scheduler for pthread programs.
// Exactly one managed thread runs at a time; every intercepted pthread call is a
// scheduling point whose outcome is decided by a choice oracle (the explorer).
#ifndef VSCHED_H
#define VSCHED_H
#include <pthread.h>
#include <stddef.h>
#include <stdint.h>

#ifdef __cplusplus
extern "C" {
#endif

// ---- intercepted entry points (repository code is compiled with vsched_shim.h)
int vs_pthread_create(pthread_t*, const pthread_attr_t*, void* (*)(void*), void*);
int vs_pthread_join(pthread_t, void**);
int vs_pthread_mutex_lock(pthread_mutex_t*);
int vs_pthread_mutex_unlock(pthread_mutex_t*);
int vs_pthread_cond_wait(pthread_cond_t*, pthread_mutex_t*);
int vs_pthread_cond_signal(pthread_cond_t*);
int vs_pthread_cond_broadcast(pthread_cond_t*);
long vs_sysconf(int name);

// ---- harness API
// A scheduling point inside harness callbacks (task::perform, notifier).
void vs_yield(const char* label);
// Give a stable name to a mutex / condition variable (otherwise m0, m1.. in first-use order).
void vs_name_object(const void* addr, const char* name);
// Record a value in the event log (e.g. "perform t=2").
void vs_note(const char* what, long value);

enum vs_choice_kind { VS_THREAD = 0, VS_WAITER = 1 };

struct vs_option {
  int thread;      // thread that would run / be woken
  int spurious;    // 1 if choosing it injects a spurious wake-up
};

struct vs_config {
  // Choice oracle.  'running_enabled' tells whether option 0 is "continue the running thread".
  // Must return an index in [0, n).
  int (*choose)(void* ctx, int kind, const struct vs_option* opts, int n, int running_enabled);
  void* ctx;
  // Called at every commit with a rendering of the step; may be NULL.
  void (*on_event)(void* ctx, int thread, const char* op, const char* obj, long value);
  // Hash of the harness-visible shared state (queue contents, flags, counters).
  uint64_t (*shared_hash)(void* ctx);
  // Called when a managed thread is about to be created, with the start-routine argument (may be NULL).
  void (*on_thread_create)(void* ctx, void* arg);
  // Extra scheduling point right AFTER every mutex unlock commits: exposes code that touches shared
  // state (e.g. std::atomic flags, which are not intercepted) just after leaving a critical section.
  int yield_after_unlock;
  int spurious_budget;     // max spurious wake-ups injected in this execution
  long max_steps;          // livelock guard
  long nproc;              // value returned by the intercepted sysconf(_SC_NPROCESSORS_ONLN)
};

enum vs_status { VS_OK = 0, VS_DEADLOCK = 1, VS_STEP_LIMIT = 2 };

// Run body() as managed thread 0 under cfg.  Returns when every managed thread
// has finished (VS_OK).  On deadlock / step limit the function does NOT return:
// it calls cfg-independent handler vs_fatal_handler(status) which must not return.
int vs_run(const struct vs_config* cfg, void (*body)(void*), void* arg);
extern void (*vs_fatal_handler)(int status, const char* detail);

// Introspection (valid inside callbacks)
uint64_t vs_state_key(void);          // hash of scheduler state + per-thread histories + shared_hash
int vs_num_threads(void);
int vs_current(void);
long vs_steps(void);
// Text description of the pending operation of thread t ("lock todoMutex"), or "" if finished.
const char* vs_pending(int t);
int vs_mutex_owner(const void* addr);                 // -1 if free
int vs_cond_waiters(const void* addr, int* out, int max); // unsignalled waiters

#ifdef __cplusplus
}
#endif
#endif
